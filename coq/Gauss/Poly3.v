(* Gauss/Poly3.v — polynomials in three variables, the ISOTROPIC three-dimensional Gaussian moment
   functional, and its invariance under every orthogonal linear substitution.  Any field (in fact any
   commutative ring: no division occurs in this file), no analysis, no axioms.

   y = r - P.  A polynomial in (y_x, y_y, y_z) is a MONOMIAL LIST  [(exponent triple, coefficient); ...];
   repeated monomials, zero coefficients and any order are allowed.  No setoid: every fact about
   polynomials is stated "seen through" the family of all linear functionals
        Jsum J f = sum over the entries (m, c) of f of  c * J m            (J : mon -> F arbitrary)
   ([peq f g] := forall J, Jsum J f = Jsum J g); every operator used here has an ADJOINT on J
   ([Jsum J (op f) = Jsum (opT J) f]), which makes congruence automatic.

     E3 v f      = Jsum (fun (a,b,c) => m_a m_b m_c) f        m_n the 1-D Gaussian moments of Moment1D.v with
                   the SAME variance v along the three axes (v = 1/(2p)); on a product of three one-variable
                   polynomials it is the product of the three 1-D functionals E ([E3aux_plin3pow_*]).
     mulv i f    = y_i * f            dv i f = d f / d y_i           plin3 i c f = (y_i + c) f
     mullin l f  = (l_x y_x + l_y y_y + l_z y_z) f                   mulaff l c f = (l.y + c) f
     subst R f   = f o R : y_i is replaced by sum_j R i j * y_j      (on a monomial: multiplied out)

   RESULTS
     stein3            E3 (y_i f) = v E3 (d_i f)                                   (i = x, y, z; every f)
     moments3_unique   J(0,0,0) = c0 and J(m + e_i) = v m_i J(m - e_i) for all m, i  ==>  J = c0 * (m_a m_b m_c)
     gauss3_uniqueness a linear functional I on monomial lists with I(y_i f) = v I(d_i f) on monomials
                       is I(1) * E3 v    (the 3-D version of Bridge.bridge_uniqueness)
     subst_mulv        (y_i f) o R  ==  (sum_j R i j y_j) (f o R)
     dv_subst          d_k (f o R)  ==  sum_i R i k ((d_i f) o R)                  (chain rule)
     E3_subst_orth     R R^T = 1  ==>  E3 v (f o R) = E3 v f   for EVERY polynomial f: the isotropic
                       Gaussian moment functional is invariant under every orthogonal substitution, proper or
                       improper.
     peval_subst       the value of f o R at u is the value of f at R u (pins the meaning of [subst])
     factors_smono / factors_E3   E3 of a product of one-variable polynomials = product of the 1-D functionals E
     shiftmul_subst_mon  (Q (y + c))^a g  ==  prod_i (Q_i . y + Q_i . c)^(a_i) g
     rotated_product2_E3 / rotated_product3_E3   E3 of (y+cA)^a (y+cB)^b [(y+cC)^k] against the entries of (R^T u)^a ...
                       for displacements rotated by R (columns of R orthonormal)           (used by Proofs/RotationP.v)
     lap_subst, euler_subst, rsq_subst, kinop_subst   Laplacian, y.grad, |y|^2 and the kinetic operator
                       -h e^{beta y^2} Lap(. e^{-beta y^2}) commute with every orthogonal substitution
     kinT_covariant    a covariant bilinear form on index pairs stays covariant when the kinetic operator acts on one index *)
From Coq Require Import List Arith Lia Field.
From GB Require Import Base.Field Base.FNum Gauss.Moment1D.
Import ListNotations.

Inductive axis : Set := AX | AY | AZ.
Definition mon := (nat * nat * nat)%type.

Definition expo (i : axis) (m : mon) : nat :=
  match i with AX => fst (fst m) | AY => snd (fst m) | AZ => snd m end.
Definition bump (i : axis) (m : mon) : mon :=
  match i with
  | AX => (S (fst (fst m)), snd (fst m), snd m)
  | AY => (fst (fst m), S (snd (fst m)), snd m)
  | AZ => (fst (fst m), snd (fst m), S (snd m))
  end.
Definition mlower (i : axis) (m : mon) : mon :=
  match i with
  | AX => (Nat.pred (fst (fst m)), snd (fst m), snd m)
  | AY => (fst (fst m), Nat.pred (snd (fst m)), snd m)
  | AZ => (fst (fst m), snd (fst m), Nat.pred (snd m))
  end.
Definition axis_eqb (i j : axis) : bool :=
  match i, j with AX, AX | AY, AY | AZ, AZ => true | _, _ => false end.

Section Poly3.
Context {F : Type} (K : Fops F) (Kf : is_field K).
Add Field KFp3 : Kf.
Local Open Scope F_scope.
Notation "0" := (f0 K) : F_scope.
Notation "1" := (f1 K) : F_scope.
Infix "+" := (fadd K) : F_scope.
Infix "*" := (fmul K) : F_scope.
Infix "-" := (fsub K) : F_scope.
Notation "- x" := (fopp K x) : F_scope.
Notation "# n" := (ofnat K n) (at level 5) : F_scope.

Definition poly3 := list (mon * F).
Definition mono3 (m : mon) : poly3 := [(m, 1)].
Definition one3 : poly3 := mono3 (0, 0, 0)%nat.

(* ------------------------------------------------------------------ *)
(* 1. functionals, operators and their adjoints                         *)

Fixpoint Jsum (J : mon -> F) (f : poly3) : F :=
  match f with [] => 0 | mc :: f' => snd mc * J (fst mc) + Jsum J f' end.

Definition peq (f g : poly3) : Prop := forall J, Jsum J f = Jsum J g.

Definition sum3 (g : axis -> F) : F := g AX + g AY + g AZ.
Definition delta3 (i j : axis) : F := if axis_eqb i j then 1 else 0.

Definition pscale3 (c : F) (f : poly3) : poly3 := map (fun mc => (fst mc, c * snd mc)) f.
Definition mulv (i : axis) (f : poly3) : poly3 := map (fun mc => (bump i (fst mc), snd mc)) f.
Definition dv (i : axis) (f : poly3) : poly3 :=
  map (fun mc => (mlower i (fst mc), #(expo i (fst mc)) * snd mc)) f.
Definition mullin (l : axis -> F) (f : poly3) : poly3 :=
  pscale3 (l AX) (mulv AX f) ++ pscale3 (l AY) (mulv AY f) ++ pscale3 (l AZ) (mulv AZ f).
Definition mulaff (l : axis -> F) (c : F) (f : poly3) : poly3 := pscale3 c f ++ mullin l f.
Definition plin3 (i : axis) (c : F) (f : poly3) : poly3 := pscale3 c f ++ mulv i f.
Fixpoint powop (op : poly3 -> poly3) (n : nat) (f : poly3) : poly3 :=
  match n with O => f | S k => op (powop op k f) end.
(* the linear extension of an operator given on monomials *)
Definition lift (T : mon -> poly3) (f : poly3) : poly3 :=
  flat_map (fun mc => pscale3 (snd mc) (T (fst mc))) f.

Lemma peq_refl f : peq f f. Proof. intro J. reflexivity. Qed.
Lemma peq_sym f g : peq f g -> peq g f. Proof. intros H J. symmetry. apply H. Qed.
Lemma peq_trans f g h : peq f g -> peq g h -> peq f h.
Proof. intros H1 H2 J. rewrite H1. apply H2. Qed.

Lemma Jsum_ext J J' : (forall m, J m = J' m) -> forall f, Jsum J f = Jsum J' f.
Proof. intros H f. induction f as [|mc f IH]; cbn [Jsum]; [reflexivity|]. now rewrite H, IH. Qed.
Lemma Jsum_app J f g : Jsum J (f ++ g) = Jsum J f + Jsum J g.
Proof. induction f as [|mc f IH]; cbn [app Jsum]; [ring|]. rewrite IH. ring. Qed.
Lemma Jsum_pscale3 J c f : Jsum J (pscale3 c f) = c * Jsum J f.
Proof. induction f as [|mc f IH]; cbn [pscale3 map Jsum fst snd]; [ring|].
  fold (pscale3 c f). rewrite IH. ring. Qed.
Lemma Jsum_Jadd J J' f : Jsum (fun m => J m + J' m) f = Jsum J f + Jsum J' f.
Proof. induction f as [|mc f IH]; cbn [Jsum]; [ring|]. rewrite IH. ring. Qed.
Lemma Jsum_Jscale c J f : Jsum (fun m => c * J m) f = c * Jsum J f.
Proof. induction f as [|mc f IH]; cbn [Jsum]; [ring|]. rewrite IH. ring. Qed.
Lemma Jsum_J0 f : Jsum (fun _ => 0) f = 0.
Proof. induction f as [|mc f IH]; cbn [Jsum]; [ring|]. rewrite IH. ring. Qed.

(* adjoints *)
Definition mulvT (i : axis) (J : mon -> F) : mon -> F := fun m => J (bump i m).
Definition dvT (i : axis) (J : mon -> F) : mon -> F := fun m => #(expo i m) * J (mlower i m).
Definition mullinT (l : axis -> F) (J : mon -> F) : mon -> F :=
  fun m => l AX * J (bump AX m) + l AY * J (bump AY m) + l AZ * J (bump AZ m).
Definition affT (l : axis -> F) (c : F) (J : mon -> F) : mon -> F := fun m => c * J m + mullinT l J m.
Definition plin3T (i : axis) (c : F) (J : mon -> F) : mon -> F := fun m => c * J m + J (bump i m).
Definition liftT (T : mon -> poly3) (J : mon -> F) : mon -> F := fun m => Jsum J (T m).
Fixpoint powT (opT : (mon -> F) -> (mon -> F)) (n : nat) (J : mon -> F) : mon -> F :=
  match n with O => J | S k => powT opT k (opT J) end.

Definition adjoint (op : poly3 -> poly3) (opT : (mon -> F) -> (mon -> F)) : Prop :=
  forall J f, Jsum J (op f) = Jsum (opT J) f.

Lemma Jsum_mulv i : adjoint (mulv i) (mulvT i).
Proof. intros J f. induction f as [|mc f IH]; cbn [mulv map Jsum fst snd]; [reflexivity|].
  fold (mulv i f). rewrite IH. reflexivity. Qed.
Lemma Jsum_dv i : adjoint (dv i) (dvT i).
Proof. intros J f. induction f as [|mc f IH]; cbn [dv map Jsum fst snd]; [reflexivity|].
  fold (dv i f). rewrite IH. unfold dvT. ring. Qed.
Lemma Jsum_mullin l : adjoint (mullin l) (mullinT l).
Proof.
  intros J f. unfold mullin. rewrite !Jsum_app, !Jsum_pscale3, !Jsum_mulv.
  induction f as [|mc f IH]; cbn [Jsum]; [ring|].
  rewrite <- IH. unfold mullinT, mulvT. ring.
Qed.
Lemma Jsum_mulaff l c : adjoint (mulaff l c) (affT l c).
Proof.
  intros J f. unfold mulaff. rewrite Jsum_app, Jsum_pscale3, Jsum_mullin.
  unfold affT. rewrite Jsum_Jadd, Jsum_Jscale. reflexivity.
Qed.
Lemma Jsum_plin3 i c : adjoint (plin3 i c) (plin3T i c).
Proof.
  intros J f. unfold plin3. rewrite Jsum_app, Jsum_pscale3, Jsum_mulv.
  unfold plin3T. rewrite Jsum_Jadd, Jsum_Jscale. reflexivity.
Qed.
Lemma Jsum_lift T : adjoint (lift T) (liftT T).
Proof. intros J f. induction f as [|mc f IH]; cbn [lift flat_map Jsum]; [reflexivity|].
  fold (lift T f). rewrite Jsum_app, Jsum_pscale3, IH. reflexivity. Qed.
Lemma Jsum_powop op opT : adjoint op opT -> forall n, adjoint (powop op n) (powT opT n).
Proof. intros H n. induction n as [|n IH]; intros J f; cbn [powop powT]; [reflexivity|].
  rewrite H. apply IH. Qed.

Lemma adjoint_cong op opT : adjoint op opT -> forall f g, peq f g -> peq (op f) (op g).
Proof. intros H f g Hfg J. rewrite !H. apply Hfg. Qed.
Lemma adjoint_zero op opT : adjoint op opT ->
  forall f, (forall J, Jsum J f = 0) -> forall J, Jsum J (op f) = 0.
Proof. intros A f H J. rewrite A. apply H. Qed.
Lemma powop_S_comm op n f : powop op n (op f) = op (powop op n f).
Proof. induction n as [|n IH]; cbn [powop]; [reflexivity|]. now rewrite IH. Qed.

Lemma lift_app T f g : lift T (f ++ g) = lift T f ++ lift T g.
Proof. unfold lift. apply flat_map_app. Qed.

(* the affine multiplications commute *)
Lemma mulaff_comm l c l' c' f : peq (mulaff l c (mulaff l' c' f)) (mulaff l' c' (mulaff l c f)).
Proof.
  intro J. rewrite !Jsum_mulaff. apply Jsum_ext. intros [[a b] d].
  unfold affT, mullinT. cbn [bump fst snd]. ring.
Qed.
Lemma mullin_is_mulaff l f : peq (mullin l f) (mulaff l 0 f).
Proof. intro J. rewrite Jsum_mulaff, Jsum_mullin. apply Jsum_ext. intro m. unfold affT. ring. Qed.
Lemma plin3_is_mulaff i c f : peq (plin3 i c f) (mulaff (delta3 i) c f).
Proof.
  intro J. rewrite Jsum_mulaff, Jsum_plin3. apply Jsum_ext. intro m.
  unfold affT, plin3T, mullinT, delta3. destruct i; cbn [axis_eqb]; ring.
Qed.
Lemma mulv_is_mullin i f : peq (mulv i f) (mullin (delta3 i) f).
Proof.
  intro J. rewrite Jsum_mulv, Jsum_mullin. apply Jsum_ext. intro m.
  unfold mulvT, mullinT, delta3. destruct i; cbn [axis_eqb]; ring.
Qed.

(* two operators that commute: powers of the one commute with the other *)
Lemma powop_comm op opT op' opT' : adjoint op opT -> adjoint op' opT' ->
  (forall f, peq (op (op' f)) (op' (op f))) ->
  forall n f, peq (powop op n (op' f)) (op' (powop op n f)).
Proof.
  intros A A' C n. induction n as [|n IH]; intro f; cbn [powop]; [apply peq_refl|].
  eapply peq_trans; [apply (adjoint_cong op opT A), IH|]. apply C.
Qed.

(* ------------------------------------------------------------------ *)
(* 2. the isotropic Gaussian moment functional                          *)
Variable v : F.
Notation mom := (mom K v).

Definition M3 (m : mon) : F := mom (fst (fst m)) * mom (snd (fst m)) * mom (snd m).
Definition M3n (n m : mon) : F :=
  mom (fst (fst n) + fst (fst m)) * mom (snd (fst n) + snd (fst m)) * mom (snd n + snd m).
Definition E3 (f : poly3) : F := Jsum M3 f.
Definition E3aux (n : mon) (f : poly3) : F := Jsum (M3n n) f.

Lemma E3_is_E3aux f : E3 f = E3aux (0, 0, 0)%nat f.
Proof. reflexivity. Qed.
Lemma E3_one : E3 one3 = 1.
Proof. unfold E3, one3, mono3, M3. cbn [Jsum fst snd]. rewrite (mom_0 K). ring. Qed.
Lemma E3_app f g : E3 (f ++ g) = E3 f + E3 g.
Proof. apply Jsum_app. Qed.
Lemma E3_pscale3 c f : E3 (pscale3 c f) = c * E3 f.
Proof. apply Jsum_pscale3. Qed.
Lemma E3_peq f g : peq f g -> E3 f = E3 g.
Proof. intro H. apply H. Qed.

Lemma mom_S_pred a : mom (S a) = v * (#a * mom (Nat.pred a)).
Proof. destruct a as [|a]; cbn [Nat.pred].
  - rewrite (mom_1 K). cbn [ofnat]. ring.
  - rewrite (mom_SS K). ring. Qed.

(* Stein's rule along each axis *)
Theorem stein3 i f : E3 (mulv i f) = v * E3 (dv i f).
Proof.
  unfold E3. rewrite Jsum_mulv, Jsum_dv, <- Jsum_Jscale. apply Jsum_ext. intros [[a b] c].
  unfold mulvT, dvT, M3. destruct i; cbn [bump mlower expo fst snd]; rewrite mom_S_pred; ring.
Qed.

(* the moment sequence is the only solution of the three Stein recurrences *)
Definition stein_laws (c0 : F) (J : mon -> F) : Prop :=
  J (0, 0, 0)%nat = c0 /\ forall i m, J (bump i m) = v * (#(expo i m) * J (mlower i m)).

Lemma M3_stein_laws c0 : stein_laws c0 (fun m => c0 * M3 m).
Proof.
  split.
  - unfold M3. cbn [fst snd]. rewrite (mom_0 K). ring.
  - intros i [[a b] c]. unfold M3.
    destruct i; cbn [bump mlower expo fst snd]; rewrite mom_S_pred; ring.
Qed.

Theorem moments3_unique (J : mon -> F) c0 : stein_laws c0 J -> forall m, J m = c0 * M3 m.
Proof.
  intros [H0 H].
  assert (HX : forall a b c, J (a, b, c) = mom a * J (0, b, c)%nat).
  { intros a b c.
    assert (B : J (a, b, c) = mom a * J (0, b, c)%nat /\ J (S a, b, c) = mom (S a) * J (0, b, c)%nat).
    { induction a as [|a [I1 I2]].
      - split; [rewrite (mom_0 K); ring|]. pose proof (H AX (0, b, c)%nat) as E.
        cbn [bump mlower expo fst snd Nat.pred] in E. rewrite E, (mom_1 K). cbn [ofnat]. ring.
      - split; [exact I2|]. pose proof (H AX (S a, b, c)) as E.
        cbn [bump mlower expo fst snd Nat.pred] in E. rewrite E, I1, (mom_SS K). ring. }
    apply B. }
  assert (HY : forall b c, J (0, b, c)%nat = mom b * J (0, 0, c)%nat).
  { intros b c.
    assert (B : J (0, b, c)%nat = mom b * J (0, 0, c)%nat /\ J (0, S b, c)%nat = mom (S b) * J (0, 0, c)%nat).
    { induction b as [|b [I1 I2]].
      - split; [rewrite (mom_0 K); ring|]. pose proof (H AY (0, 0, c)%nat) as E.
        cbn [bump mlower expo fst snd Nat.pred] in E. rewrite E, (mom_1 K). cbn [ofnat]. ring.
      - split; [exact I2|]. pose proof (H AY (0, S b, c)%nat) as E.
        cbn [bump mlower expo fst snd Nat.pred] in E. rewrite E, I1, (mom_SS K). ring. }
    apply B. }
  assert (HZ : forall c, J (0, 0, c)%nat = mom c * J (0, 0, 0)%nat).
  { intros c.
    assert (B : J (0, 0, c)%nat = mom c * J (0, 0, 0)%nat /\ J (0, 0, S c)%nat = mom (S c) * J (0, 0, 0)%nat).
    { induction c as [|c [I1 I2]].
      - split; [rewrite (mom_0 K); ring|]. pose proof (H AZ (0, 0, 0)%nat) as E.
        cbn [bump mlower expo fst snd Nat.pred] in E. rewrite E, (mom_1 K). cbn [ofnat]. ring.
      - split; [exact I2|]. pose proof (H AZ (0, 0, S c)%nat) as E.
        cbn [bump mlower expo fst snd Nat.pred] in E. rewrite E, I1, (mom_SS K). ring. }
    apply B. }
  intros [[a b] c]. rewrite HX, HY, HZ, H0. unfold M3. cbn [fst snd]. ring.
Qed.

(* abstract linear functionals on monomial lists *)
Definition plinear3 (I : poly3 -> F) : Prop :=
  (forall f g, I (f ++ g) = I f + I g) /\ (forall c f, I (pscale3 c f) = c * I f).

Lemma linear_determined3 (I : poly3 -> F) : plinear3 I ->
  forall f, I f = Jsum (fun m => I (mono3 m)) f.
Proof.
  intros [Hadd Hsc]. induction f as [|[m c] f IH].
  - cbn [Jsum]. pose proof (Hsc 0 []) as E. cbn [pscale3 map] in E.
    transitivity (0 * I []); [exact E|ring].
  - change ((m, c) :: f) with ([(m, c)] ++ f). rewrite Hadd, IH. cbn [Jsum app fst snd]. f_equal.
    replace [(m, c)] with (pscale3 c (mono3 m)); [apply Hsc|].
    unfold mono3. cbn [pscale3 map fst snd]. do 2 f_equal. ring.
Qed.

Definition stein_on_monomials (I : poly3 -> F) : Prop :=
  forall i m, I (mulv i (mono3 m)) = v * I (dv i (mono3 m)).
Definition stein_everywhere (I : poly3 -> F) : Prop :=
  forall i f, I (mulv i f) = v * I (dv i f).

(* UNIQUENESS in three dimensions *)
Theorem gauss3_uniqueness (I : poly3 -> F) :
  plinear3 I -> stein_on_monomials I -> forall f, I f = I one3 * E3 f.
Proof.
  intros HL HS f. rewrite (linear_determined3 I HL). unfold E3.
  rewrite <- Jsum_Jscale. apply Jsum_ext. apply moments3_unique. split; [reflexivity|].
  intros i m. pose proof (HS i m) as E.
  change (mulv i (mono3 m)) with (mono3 (bump i m)) in E.
  change (dv i (mono3 m)) with (pscale3 #(expo i m) (mono3 (mlower i m))) in E.
  destruct HL as [_ Hsc]. rewrite Hsc in E. exact E.
Qed.

Corollary gauss3_uniqueness_all (I : poly3 -> F) :
  plinear3 I -> stein_everywhere I -> forall f, I f = I one3 * E3 f.
Proof. intros HL HS. apply gauss3_uniqueness; [exact HL|]. intros i m. apply HS. Qed.

Lemma E3_plinear3 : plinear3 E3.
Proof. split; [apply E3_app | apply E3_pscale3]. Qed.
Lemma E3_stein_everywhere : stein_everywhere E3.
Proof. intros i f. apply stein3. Qed.


(* ------------------------------------------------------------------ *)
(* 3. linear substitution  f o R :  y_i  |->  sum_j R i j * y_j          *)
Definition mat := axis -> axis -> F.
Definition dot (l c : axis -> F) : F := sum3 (fun j => l j * c j).

Definition subst_mon (R : mat) (m : mon) : poly3 :=
  powop (mullin (R AX)) (expo AX m) (powop (mullin (R AY)) (expo AY m)
    (powop (mullin (R AZ)) (expo AZ m) one3)).
Definition subst (R : mat) (f : poly3) : poly3 := lift (subst_mon R) f.

Lemma subst_app R f g : subst R (f ++ g) = subst R f ++ subst R g.
Proof. apply lift_app. Qed.
Lemma subst_pscale3 R c f : peq (subst R (pscale3 c f)) (pscale3 c (subst R f)).
Proof. intro J. unfold subst. rewrite Jsum_lift, !Jsum_pscale3, Jsum_lift. reflexivity. Qed.
Lemma subst_one3 R : peq (subst R one3) one3.
Proof. intro J. unfold subst, one3, mono3, lift, subst_mon. cbn [flat_map expo fst snd powop].
  rewrite Jsum_app, Jsum_pscale3. unfold one3, mono3. cbn [Jsum fst snd]. ring. Qed.
Lemma subst_cong R f g : peq f g -> peq (subst R f) (subst R g).
Proof. apply (adjoint_cong _ _ (Jsum_lift (subst_mon R))). Qed.

Lemma mullin_comm l l' f : peq (mullin l (mullin l' f)) (mullin l' (mullin l f)).
Proof. intro J. rewrite !Jsum_mullin. apply Jsum_ext. intros [[a b] d].
  unfold mullinT. cbn [bump fst snd]. ring. Qed.

Lemma subst_mon_bump R i m : peq (subst_mon R (bump i m)) (mullin (R i) (subst_mon R m)).
Proof.
  destruct m as [[a b] c]. unfold subst_mon. destruct i; cbn [bump expo fst snd].
  - cbn [powop]. apply peq_refl.
  - cbn [powop].
    apply (powop_comm _ _ _ _ (Jsum_mullin (R AX)) (Jsum_mullin (R AY))). intro f. apply mullin_comm.
  - cbn [powop]. eapply peq_trans.
    + apply (adjoint_cong _ _ (Jsum_powop _ _ (Jsum_mullin (R AX)) a)).
      apply (powop_comm _ _ _ _ (Jsum_mullin (R AY)) (Jsum_mullin (R AZ))). intro f. apply mullin_comm.
    + apply (powop_comm _ _ _ _ (Jsum_mullin (R AX)) (Jsum_mullin (R AZ))). intro f. apply mullin_comm.
Qed.

(* substitution is multiplicative on a coordinate factor *)
Theorem subst_mulv R i f : peq (subst R (mulv i f)) (mullin (R i) (subst R f)).
Proof.
  intro J. unfold subst. rewrite Jsum_lift, Jsum_mulv, Jsum_mullin, Jsum_lift.
  apply Jsum_ext. intro m. unfold mulvT, liftT. rewrite subst_mon_bump, Jsum_mullin. reflexivity.
Qed.

Lemma Jsum_plin3_exp J i c f : Jsum J (plin3 i c f) = c * Jsum J f + Jsum J (mulv i f).
Proof. unfold plin3. now rewrite Jsum_app, Jsum_pscale3. Qed.
Lemma Jsum_mullin_exp J l f :
  Jsum J (mullin l f) = l AX * Jsum J (mulv AX f) + l AY * Jsum J (mulv AY f) + l AZ * Jsum J (mulv AZ f).
Proof. unfold mullin. rewrite !Jsum_app, !Jsum_pscale3. ring. Qed.
Lemma Jsum_mulaff_exp J l c f : Jsum J (mulaff l c f) = c * Jsum J f + Jsum J (mullin l f).
Proof. unfold mulaff. now rewrite Jsum_app, Jsum_pscale3. Qed.

Theorem subst_plin3 R i c f : peq (subst R (plin3 i c f)) (mulaff (R i) c (subst R f)).
Proof.
  intro J. unfold plin3. rewrite subst_app, Jsum_app, subst_pscale3, Jsum_pscale3, subst_mulv.
  rewrite Jsum_mulaff_exp. reflexivity.
Qed.

(* Leibniz rule for a linear factor *)
Lemma dv_mullin k l f J : Jsum J (dv k (mullin l f)) = l k * Jsum J f + Jsum J (mullin l (dv k f)).
Proof.
  rewrite Jsum_dv, !Jsum_mullin, Jsum_dv. rewrite <- Jsum_Jscale, <- Jsum_Jadd.
  apply Jsum_ext. intros [[a b] c]. unfold dvT, mullinT.
  destruct k; cbn [bump mlower expo fst snd Nat.pred].
  - destruct a; cbn [Nat.pred ofnat]; ring.
  - destruct b; cbn [Nat.pred ofnat]; ring.
  - destruct c; cbn [Nat.pred ofnat]; ring.
Qed.

Lemma dv_powop_mullin k l n f J :
  Jsum J (dv k (powop (mullin l) n f))
  = #n * l k * Jsum J (powop (mullin l) (Nat.pred n) f) + Jsum J (powop (mullin l) n (dv k f)).
Proof.
  revert J. induction n as [|n IH]; intro J; cbn [powop Nat.pred].
  - cbn [ofnat]. ring.
  - rewrite dv_mullin, Jsum_mullin, IH, <- !Jsum_mullin.
    destruct n as [|n]; cbn [powop Nat.pred ofnat]; ring.
Qed.

Lemma dv_one3 k J : Jsum J (dv k one3) = 0.
Proof. unfold one3, mono3. destruct k; cbn [dv map Jsum expo fst snd ofnat]; ring. Qed.

Lemma dv_pow3 (R : mat) k a b c g J :
  Jsum J (dv k (powop (mullin (R AX)) a (powop (mullin (R AY)) b (powop (mullin (R AZ)) c g))))
  = #a * R AX k * Jsum J (powop (mullin (R AX)) (Nat.pred a) (powop (mullin (R AY)) b (powop (mullin (R AZ)) c g)))
  + #b * R AY k * Jsum J (powop (mullin (R AX)) a (powop (mullin (R AY)) (Nat.pred b) (powop (mullin (R AZ)) c g)))
  + #c * R AZ k * Jsum J (powop (mullin (R AX)) a (powop (mullin (R AY)) b (powop (mullin (R AZ)) (Nat.pred c) g)))
  + Jsum J (powop (mullin (R AX)) a (powop (mullin (R AY)) b (powop (mullin (R AZ)) c (dv k g)))).
Proof.
  rewrite dv_powop_mullin.
  rewrite (Jsum_powop _ _ (Jsum_mullin (R AX)) a J (dv k _)).
  rewrite dv_powop_mullin.
  rewrite (Jsum_powop _ _ (Jsum_mullin (R AY)) b _ (dv k _)).
  rewrite dv_powop_mullin.
  rewrite <- !(Jsum_powop _ _ (Jsum_mullin (R AY)) b).
  rewrite <- !(Jsum_powop _ _ (Jsum_mullin (R AX)) a).
  ring.
Qed.

(* chain rule on a monomial ... *)
Lemma dv_subst_mon R k m J :
  Jsum J (dv k (subst_mon R m))
  = sum3 (fun i => R i k * (#(expo i m) * Jsum J (subst_mon R (mlower i m)))).
Proof.
  destruct m as [[a b] c]. unfold subst_mon, sum3. cbn [expo mlower fst snd].
  rewrite dv_pow3.
  assert (Z : forall J', Jsum J' (powop (mullin (R AX)) a (powop (mullin (R AY)) b
                (powop (mullin (R AZ)) c (dv k one3)))) = 0).
  { apply (adjoint_zero _ _ (Jsum_powop _ _ (Jsum_mullin (R AX)) a)).
    apply (adjoint_zero _ _ (Jsum_powop _ _ (Jsum_mullin (R AY)) b)).
    apply (adjoint_zero _ _ (Jsum_powop _ _ (Jsum_mullin (R AZ)) c)). apply dv_one3. }
  rewrite Z. ring.
Qed.

(* ... and on every polynomial:  d_k (f o R) = sum_i R i k ((d_i f) o R) *)
Theorem dv_subst R k f J :
  Jsum J (dv k (subst R f)) = sum3 (fun i => R i k * Jsum J (subst R (dv i f))).
Proof.
  unfold subst, sum3. rewrite Jsum_dv, !Jsum_lift, !Jsum_dv.
  rewrite <- !Jsum_Jscale, <- !Jsum_Jadd. apply Jsum_ext. intro m.
  unfold liftT at 1. rewrite <- Jsum_dv, dv_subst_mon. unfold sum3, dvT, liftT. ring.
Qed.

(* ------------------------------------------------------------------ *)
(* 4. rotation invariance                                               *)
(* R R^T = 1 (rows orthonormal); nothing is assumed about det R *)
Definition orth_rows (R : mat) : Prop := forall i k, sum3 (fun j => R i j * R k j) = delta3 i k.
Definition transpose (R : mat) : mat := fun i j => R j i.

Lemma subst_plinear3 R : plinear3 (fun f => E3 (subst R f)).
Proof. split; intros.
  - rewrite subst_app. apply E3_app.
  - rewrite (E3_peq _ _ (subst_pscale3 R c f)). apply E3_pscale3. Qed.

Lemma subst_stein R : orth_rows R -> stein_everywhere (fun f => E3 (subst R f)).
Proof.
  intros HO i g. cbv beta. rewrite (E3_peq _ _ (subst_mulv R i g)).
  unfold E3 at 1. rewrite Jsum_mullin_exp. fold (E3 (mulv AX (subst R g))).
  fold (E3 (mulv AY (subst R g))). fold (E3 (mulv AZ (subst R g))).
  rewrite !stein3. unfold E3. rewrite !dv_subst. unfold sum3.
  set (X := Jsum M3 (subst R (dv AX g))). set (Y := Jsum M3 (subst R (dv AY g))).
  set (Z := Jsum M3 (subst R (dv AZ g))).
  pose proof (HO i AX) as H1. pose proof (HO i AY) as H2. pose proof (HO i AZ) as H3.
  unfold sum3 in H1, H2, H3.
  transitivity (v * ((R i AX * R AX AX + R i AY * R AX AY + R i AZ * R AX AZ) * X
                     + (R i AX * R AY AX + R i AY * R AY AY + R i AZ * R AY AZ) * Y
                     + (R i AX * R AZ AX + R i AY * R AZ AY + R i AZ * R AZ AZ) * Z)); [ring|].
  rewrite H1, H2, H3. unfold delta3, X, Y, Z. destruct i; cbn [axis_eqb]; ring.
Qed.

(* THE ISOTROPIC GAUSSIAN MOMENT FUNCTIONAL IS INVARIANT UNDER EVERY ORTHOGONAL SUBSTITUTION *)
Theorem E3_subst_orth R : orth_rows R -> forall f, E3 (subst R f) = E3 f.
Proof.
  intros HO f.
  rewrite (gauss3_uniqueness_all (fun f => E3 (subst R f)) (subst_plinear3 R) (subst_stein R HO) f).
  rewrite (E3_peq _ _ (subst_one3 R)), E3_one. ring.
Qed.

(* ------------------------------------------------------------------ *)
(* 5. products of shifted monomials: (y + c)^m g and h(y + c) g          *)
Definition smono (c : axis -> F) (m : mon) (g : poly3) : poly3 :=
  powop (plin3 AX (c AX)) (expo AX m) (powop (plin3 AY (c AY)) (expo AY m)
    (powop (plin3 AZ (c AZ)) (expo AZ m) g)).
Definition shiftmul (h : poly3) (c : axis -> F) (g : poly3) : poly3 := lift (fun m => smono c m g) h.

Lemma plin3_comm i c j d f : peq (plin3 i c (plin3 j d f)) (plin3 j d (plin3 i c f)).
Proof. intro J. rewrite !Jsum_plin3. apply Jsum_ext. intros [[a b] e].
  unfold plin3T. destruct i, j; cbn [bump fst snd]; ring. Qed.

Lemma smono_bump c i m g : peq (smono c (bump i m) g) (plin3 i (c i) (smono c m g)).
Proof.
  destruct m as [[a b] e]. unfold smono. destruct i; cbn [bump expo fst snd].
  - cbn [powop]. apply peq_refl.
  - cbn [powop].
    apply (powop_comm _ _ _ _ (Jsum_plin3 AX (c AX)) (Jsum_plin3 AY (c AY))). intro f. apply plin3_comm.
  - cbn [powop]. eapply peq_trans.
    + apply (adjoint_cong _ _ (Jsum_powop _ _ (Jsum_plin3 AX (c AX)) a)).
      apply (powop_comm _ _ _ _ (Jsum_plin3 AY (c AY)) (Jsum_plin3 AZ (c AZ))). intro f. apply plin3_comm.
    + apply (powop_comm _ _ _ _ (Jsum_plin3 AX (c AX)) (Jsum_plin3 AZ (c AZ))). intro f. apply plin3_comm.
Qed.

Lemma smono_adjoint c m : exists opT, adjoint (smono c m) opT.
Proof.
  eexists. intros J g. unfold smono.
  rewrite (Jsum_powop _ _ (Jsum_plin3 AX (c AX))), (Jsum_powop _ _ (Jsum_plin3 AY (c AY))),
    (Jsum_powop _ _ (Jsum_plin3 AZ (c AZ))). reflexivity.
Qed.
Lemma smono_cong c m g g' : peq g g' -> peq (smono c m g) (smono c m g').
Proof. destruct (smono_adjoint c m) as [opT A]. apply (adjoint_cong _ _ A). Qed.
Lemma shiftmul_cong_g h c g g' : peq g g' -> peq (shiftmul h c g) (shiftmul h c g').
Proof.
  intros H J. unfold shiftmul. rewrite !Jsum_lift. apply Jsum_ext. intro m. unfold liftT.
  now apply smono_cong.
Qed.
(* Jsum against the entries of h: the "D-matrix" reading of h *)
Lemma Jsum_shiftmul J h c g : Jsum J (shiftmul h c g) = Jsum (fun m => Jsum J (smono c m g)) h.
Proof. unfold shiftmul. now rewrite Jsum_lift. Qed.
Lemma shiftmul_mono3 m c g : peq (shiftmul (mono3 m) c g) (smono c m g).
Proof. intro J. rewrite Jsum_shiftmul. unfold mono3. cbn [Jsum fst snd]. ring. Qed.

(* (l.u) h(u) at u = y + c  is  (l.y + l.c) h(y + c) *)
Lemma shiftmul_mullin l h c g :
  peq (shiftmul (mullin l h) c g) (mulaff l (dot l c) (shiftmul h c g)).
Proof.
  intro J. rewrite Jsum_shiftmul, Jsum_mullin, Jsum_mulaff, Jsum_shiftmul.
  apply Jsum_ext. intro m. unfold mullinT. rewrite <- Jsum_mulaff.
  rewrite !smono_bump, !Jsum_plin3_exp, Jsum_mulaff_exp, Jsum_mullin_exp. unfold dot, sum3. ring.
Qed.

Lemma shiftmul_powop l n h c g :
  peq (shiftmul (powop (mullin l) n h) c g) (powop (mulaff l (dot l c)) n (shiftmul h c g)).
Proof.
  induction n as [|n IH]; cbn [powop]; [apply peq_refl|].
  eapply peq_trans; [apply shiftmul_mullin|]. apply (adjoint_cong _ _ (Jsum_mulaff l (dot l c))), IH.
Qed.

(* prod_i (Q_i . y + d_i)^(m_i) g *)
Definition affpow (Q : mat) (d : axis -> F) (m : mon) (g : poly3) : poly3 :=
  powop (mulaff (Q AX) (d AX)) (expo AX m) (powop (mulaff (Q AY) (d AY)) (expo AY m)
    (powop (mulaff (Q AZ) (d AZ)) (expo AZ m) g)).

Lemma affpow_cong Q d m g g' : peq g g' -> peq (affpow Q d m g) (affpow Q d m g').
Proof.
  intro H. unfold affpow.
  apply (adjoint_cong _ _ (Jsum_powop _ _ (Jsum_mulaff _ _) _)).
  apply (adjoint_cong _ _ (Jsum_powop _ _ (Jsum_mulaff _ _) _)).
  apply (adjoint_cong _ _ (Jsum_powop _ _ (Jsum_mulaff _ _) _)). exact H.
Qed.
Lemma affpow_ext Q d d' m g : (forall i, d i = d' i) -> affpow Q d m g = affpow Q d' m g.
Proof. intro H. unfold affpow. now rewrite (H AX), (H AY), (H AZ). Qed.

(* (Q (y + c))^a g = prod_i (Q_i . y + Q_i . c)^(a_i) g, for ANY matrix Q *)
Theorem shiftmul_subst_mon (Q : mat) c a g :
  peq (shiftmul (subst_mon Q a) c g) (affpow Q (fun i => dot (Q i) c) a g).
Proof.
  unfold subst_mon, affpow.
  eapply peq_trans; [apply shiftmul_powop|].
  apply (adjoint_cong _ _ (Jsum_powop _ _ (Jsum_mulaff _ _) _)).
  eapply peq_trans; [apply shiftmul_powop|].
  apply (adjoint_cong _ _ (Jsum_powop _ _ (Jsum_mulaff _ _) _)).
  eapply peq_trans; [apply shiftmul_powop|].
  apply (adjoint_cong _ _ (Jsum_powop _ _ (Jsum_mulaff _ _) _)).
  intro J. rewrite Jsum_shiftmul. unfold one3, mono3, smono. cbn [Jsum expo fst snd powop]. ring.
Qed.

(* (f o R) for f = (y + c)^m g :  prod_i (R_i . y + c_i)^(m_i) (g o R) *)
Theorem subst_smono R c m g : peq (subst R (smono c m g)) (affpow R c m (subst R g)).
Proof.
  unfold smono, affpow.
  assert (P : forall i d n f f', peq (subst R f) f' ->
            peq (subst R (powop (plin3 i d) n f)) (powop (mulaff (R i) d) n f')).
  { intros i d n f f' H. induction n as [|n IH]; cbn [powop]; [exact H|].
    eapply peq_trans; [apply subst_plin3|]. apply (adjoint_cong _ _ (Jsum_mulaff _ _)), IH. }
  apply P, P, P, peq_refl.
Qed.

(* ------------------------------------------------------------------ *)
(* 6. E3 of a product of three one-variable polynomials is the product of the three 1-D functionals *)
Notation Eaux := (Eaux K v).
Definition factors (f : poly3) (gx gy gz : list F) : Prop :=
  forall n1 n2 n3, E3aux (n1, n2, n3) f = Eaux n1 gx * Eaux n2 gy * Eaux n3 gz.

Lemma factors_one3 : factors one3 [1] [1] [1].
Proof. intros n1 n2 n3. unfold E3aux, one3, mono3, M3n. cbn [Jsum Moment1D.Eaux fst snd].
  rewrite !Nat.add_0_r. ring. Qed.

Lemma factors_plin3 i c f gx gy gz : factors f gx gy gz ->
  factors (plin3 i c f)
    (match i with AX => plin K c gx | _ => gx end)
    (match i with AY => plin K c gy | _ => gy end)
    (match i with AZ => plin K c gz | _ => gz end).
Proof.
  intros H n1 n2 n3. unfold E3aux. rewrite Jsum_plin3_exp, Jsum_mulv.
  destruct i; rewrite (Eaux_plin K Kf).
  - transitivity (c * E3aux (n1, n2, n3) f + E3aux (S n1, n2, n3) f); [|rewrite !H; ring].
    unfold E3aux. f_equal. apply Jsum_ext. intros [[a b] d]. unfold mulvT, M3n. cbn [bump fst snd].
    now rewrite Nat.add_succ_r.
  - transitivity (c * E3aux (n1, n2, n3) f + E3aux (n1, S n2, n3) f); [|rewrite !H; ring].
    unfold E3aux. f_equal. apply Jsum_ext. intros [[a b] d]. unfold mulvT, M3n. cbn [bump fst snd].
    now rewrite Nat.add_succ_r.
  - transitivity (c * E3aux (n1, n2, n3) f + E3aux (n1, n2, S n3) f); [|rewrite !H; ring].
    unfold E3aux. f_equal. apply Jsum_ext. intros [[a b] d]. unfold mulvT, M3n. cbn [bump fst snd].
    now rewrite Nat.add_succ_r.
Qed.

Lemma factors_smono c m f gx gy gz : factors f gx gy gz ->
  factors (smono c m f) (plin_pow K (c AX) (expo AX m) gx) (plin_pow K (c AY) (expo AY m) gy)
          (plin_pow K (c AZ) (expo AZ m) gz).
Proof.
  intro H. unfold smono.
  assert (PX : forall n f gx gy gz, factors f gx gy gz ->
            factors (powop (plin3 AX (c AX)) n f) (plin_pow K (c AX) n gx) gy gz).
  { intros n f0 hx hy hz H0. induction n as [|n IH]; cbn [powop plin_pow]; [exact H0|].
    apply (factors_plin3 AX (c AX) _ _ _ _ IH). }
  assert (PY : forall n f gx gy gz, factors f gx gy gz ->
            factors (powop (plin3 AY (c AY)) n f) gx (plin_pow K (c AY) n gy) gz).
  { intros n f0 hx hy hz H0. induction n as [|n IH]; cbn [powop plin_pow]; [exact H0|].
    apply (factors_plin3 AY (c AY) _ _ _ _ IH). }
  assert (PZ : forall n f gx gy gz, factors f gx gy gz ->
            factors (powop (plin3 AZ (c AZ)) n f) gx gy (plin_pow K (c AZ) n gz)).
  { intros n f0 hx hy hz H0. induction n as [|n IH]; cbn [powop plin_pow]; [exact H0|].
    apply (factors_plin3 AZ (c AZ) _ _ _ _ IH). }
  apply PX, PY, PZ, H.
Qed.

Lemma factors_E3 f gx gy gz : factors f gx gy gz -> E3 f = E K v gx * E K v gy * E K v gz.
Proof. intro H. exact (H 0%nat 0%nat 0%nat). Qed.


(* ------------------------------------------------------------------ *)
(* 7. two- and three-centre products under a rotation of the centres.
      cA, cB (, cC) are the displacements P - A, P - B (, P - C) of the original system, cA' = R cA ... those of
      the rotated one; Q = R^T.  [subst_mon Q a] is (R^T u)^a multiplied out in monomials of u: summing against
      its entries is the contraction with the representation matrix of R on the monomials of degree |a|.
      Needs the COLUMNS of R orthonormal (R^T R = 1). *)
Lemma dot_transpose_rot (R : mat) (c c' : axis -> F) :
  orth_rows (transpose R) -> (forall i, c' i = dot (R i) c) ->
  forall i, dot (transpose R i) c' = c i.
Proof.
  intros HO Hc i. unfold dot, sum3, transpose. rewrite (Hc AX), (Hc AY), (Hc AZ). unfold dot, sum3.
  pose proof (HO i AX) as H1. pose proof (HO i AY) as H2. pose proof (HO i AZ) as H3.
  unfold sum3, transpose in H1, H2, H3.
  transitivity ((R AX i * R AX AX + R AY i * R AY AX + R AZ i * R AZ AX) * c AX
                + (R AX i * R AX AY + R AY i * R AY AY + R AZ i * R AZ AY) * c AY
                + (R AX i * R AX AZ + R AY i * R AY AZ + R AZ i * R AZ AZ) * c AZ); [ring|].
  rewrite H1, H2, H3. unfold delta3. destruct i; cbn [axis_eqb]; ring.
Qed.

(* one more shifted factor, summed against the entries of (R^T u)^a *)
Lemma rotated_factor (R : mat) (c c' : axis -> F) a g g' :
  orth_rows (transpose R) -> (forall i, c' i = dot (R i) c) ->
  peq g' (subst (transpose R) g) ->
  peq (shiftmul (subst_mon (transpose R) a) c' g') (subst (transpose R) (smono c a g)).
Proof.
  intros HO Hc Hg.
  eapply peq_trans; [apply shiftmul_subst_mon|].
  rewrite (affpow_ext _ _ c a g' (dot_transpose_rot R c c' HO Hc)).
  eapply peq_trans; [apply affpow_cong, Hg|]. apply peq_sym, subst_smono.
Qed.

Lemma Jsum_smono_shiftmul J c a h d g :
  Jsum (fun b' => Jsum J (smono c a (smono d b' g))) h = Jsum J (smono c a (shiftmul h d g)).
Proof.
  destruct (smono_adjoint c a) as [opT A]. rewrite A, Jsum_shiftmul. apply Jsum_ext. intro b'.
  now rewrite A.
Qed.

Theorem rotated_product2_E3 (R : mat) (cA cB cA' cB' : axis -> F) (a b : mon) :
  orth_rows (transpose R) ->
  (forall i, cA' i = dot (R i) cA) -> (forall i, cB' i = dot (R i) cB) ->
  Jsum (fun a' => Jsum (fun b' => E3 (smono cA' a' (smono cB' b' one3)))
                       (subst_mon (transpose R) b)) (subst_mon (transpose R) a)
  = E3 (smono cA a (smono cB b one3)).
Proof.
  intros HO HA HB. unfold E3.
  rewrite (Jsum_ext _ (fun a' => Jsum M3 (smono cA' a' (shiftmul (subst_mon (transpose R) b) cB' one3))))
    by (intro a'; apply Jsum_smono_shiftmul).
  rewrite <- Jsum_shiftmul.
  fold (E3 (shiftmul (subst_mon (transpose R) a) cA' (shiftmul (subst_mon (transpose R) b) cB' one3))).
  fold (E3 (smono cA a (smono cB b one3))).
  rewrite <- (E3_subst_orth (transpose R) HO (smono cA a (smono cB b one3))).
  apply E3_peq. apply (rotated_factor R cA cA' a _ _ HO HA).
  apply (rotated_factor R cB cB' b _ _ HO HB). apply peq_sym, subst_one3.
Qed.

Theorem rotated_product3_E3 (R : mat) (cC cA cB cC' cA' cB' : axis -> F) (k a b : mon) :
  orth_rows (transpose R) ->
  (forall i, cC' i = dot (R i) cC) -> (forall i, cA' i = dot (R i) cA) -> (forall i, cB' i = dot (R i) cB) ->
  Jsum (fun k' => Jsum (fun a' => Jsum (fun b' => E3 (smono cC' k' (smono cA' a' (smono cB' b' one3))))
                       (subst_mon (transpose R) b)) (subst_mon (transpose R) a)) (subst_mon (transpose R) k)
  = E3 (smono cC k (smono cA a (smono cB b one3))).
Proof.
  intros HO HC HA HB. unfold E3.
  set (Q := transpose R).
  assert (S1 : forall k' a', Jsum (fun b' => Jsum M3 (smono cC' k' (smono cA' a' (smono cB' b' one3)))) (subst_mon Q b)
               = Jsum M3 (smono cC' k' (smono cA' a' (shiftmul (subst_mon Q b) cB' one3)))).
  { intros k' a'. destruct (smono_adjoint cC' k') as [opT A].
    rewrite A. rewrite <- Jsum_smono_shiftmul. apply Jsum_ext. intro b'. now rewrite A. }
  rewrite (Jsum_ext _ (fun k' => Jsum M3 (smono cC' k' (shiftmul (subst_mon Q a) cA'
             (shiftmul (subst_mon Q b) cB' one3))))).
  2:{ intro k'. rewrite <- Jsum_smono_shiftmul. apply Jsum_ext. intro a'. apply S1. }
  rewrite <- Jsum_shiftmul.
  fold (E3 (shiftmul (subst_mon Q k) cC' (shiftmul (subst_mon Q a) cA' (shiftmul (subst_mon Q b) cB' one3)))).
  fold (E3 (smono cC k (smono cA a (smono cB b one3)))).
  rewrite <- (E3_subst_orth Q HO (smono cC k (smono cA a (smono cB b one3)))).
  apply E3_peq. apply (rotated_factor R cC cC' k _ _ HO HC).
  apply (rotated_factor R cA cA' a _ _ HO HA).
  apply (rotated_factor R cB cB' b _ _ HO HB). apply peq_sym, subst_one3.
Qed.


(* ------------------------------------------------------------------ *)
(* 8. evaluation at a point: [subst] really is substitution (pins the meaning of [subst_mon]) *)
Notation fpow := (FNum.fpow K).
Definition monoval (u : axis -> F) (m : mon) : F :=
  fpow (u AX) (fst (fst m)) * fpow (u AY) (snd (fst m)) * fpow (u AZ) (snd m).
Definition peval (u : axis -> F) (f : poly3) : F := Jsum (monoval u) f.

Lemma peval_mullin u l f : peval u (mullin l f) = dot l u * peval u f.
Proof.
  unfold peval. rewrite Jsum_mullin, <- Jsum_Jscale. apply Jsum_ext. intros [[a b] c].
  unfold mullinT, monoval, dot, sum3. cbn [bump fst snd FNum.fpow]. ring.
Qed.
Lemma peval_powop_mullin u l n f : peval u (powop (mullin l) n f) = fpow (dot l u) n * peval u f.
Proof. induction n as [|n IH]; cbn [powop FNum.fpow]; [ring|]. rewrite peval_mullin, IH. ring. Qed.
Lemma peval_subst_mon u R m : peval u (subst_mon R m) = monoval (fun i => dot (R i) u) m.
Proof.
  unfold subst_mon. rewrite !peval_powop_mullin. unfold peval, one3, mono3, monoval.
  cbn [Jsum fst snd FNum.fpow expo]. ring.
Qed.
Theorem peval_subst u R f : peval u (subst R f) = peval (fun i => dot (R i) u) f.
Proof.
  unfold peval, subst. rewrite Jsum_lift. apply Jsum_ext. intro m. apply peval_subst_mon.
Qed.


(* ------------------------------------------------------------------ *)
(* 9. the rotation-invariant second-order operators: Laplacian, Euler operator y.grad, multiplication by |y|^2;
      each commutes with an orthogonal substitution.  [kinop h beta] is
        -h (Lap - 4 beta y.grad - 6 beta + 4 beta^2 |y|^2) = -h e^{beta y^2} Lap (. e^{-beta y^2}),
      the polynomial part of the kinetic-energy operator applied to polynomial x Gaussian (h = 1/2). *)
Definition lap (f : poly3) : poly3 := dv AX (dv AX f) ++ dv AY (dv AY f) ++ dv AZ (dv AZ f).
Definition euler (f : poly3) : poly3 := mulv AX (dv AX f) ++ mulv AY (dv AY f) ++ mulv AZ (dv AZ f).
Definition rsq (f : poly3) : poly3 := mulv AX (mulv AX f) ++ mulv AY (mulv AY f) ++ mulv AZ (mulv AZ f).
Definition kinop (h beta : F) (f : poly3) : poly3 :=
  pscale3 (- h) (lap f ++ pscale3 (- ((1 + 1 + 1 + 1) * beta)) (euler f)
                 ++ pscale3 (- ((1 + 1 + 1 + 1 + 1 + 1) * beta)) f
                 ++ pscale3 ((1 + 1 + 1 + 1) * beta * beta) (rsq f)).

Lemma dv_dv_subst R k f J :
  Jsum J (dv k (dv k (subst R f)))
  = sum3 (fun i => sum3 (fun j => R i k * R j k * Jsum J (subst R (dv j (dv i f))))).
Proof.
  rewrite Jsum_dv, dv_subst. unfold sum3. rewrite <- !Jsum_dv, !dv_subst. unfold sum3. ring.
Qed.

Theorem lap_subst R f : orth_rows R -> peq (lap (subst R f)) (subst R (lap f)).
Proof.
  intros HO J. unfold lap. rewrite !subst_app, !Jsum_app, !dv_dv_subst. unfold sum3.
  pose proof (HO AX AX) as H00. pose proof (HO AX AY) as H01. pose proof (HO AX AZ) as H02.
  pose proof (HO AY AX) as H10. pose proof (HO AY AY) as H11. pose proof (HO AY AZ) as H12.
  pose proof (HO AZ AX) as H20. pose proof (HO AZ AY) as H21. pose proof (HO AZ AZ) as H22.
  unfold sum3, delta3 in *. cbn [axis_eqb] in *.
  generalize (Jsum J (subst R (dv AX (dv AX f)))) (Jsum J (subst R (dv AY (dv AX f))))
    (Jsum J (subst R (dv AZ (dv AX f)))) (Jsum J (subst R (dv AX (dv AY f))))
    (Jsum J (subst R (dv AY (dv AY f)))) (Jsum J (subst R (dv AZ (dv AY f))))
    (Jsum J (subst R (dv AX (dv AZ f)))) (Jsum J (subst R (dv AY (dv AZ f))))
    (Jsum J (subst R (dv AZ (dv AZ f)))).
  intros xx yx zx xy yy zy xz yz zz.
  transitivity
    ((R AX AX * R AX AX + R AX AY * R AX AY + R AX AZ * R AX AZ) * xx
     + (R AX AX * R AY AX + R AX AY * R AY AY + R AX AZ * R AY AZ) * yx
     + (R AX AX * R AZ AX + R AX AY * R AZ AY + R AX AZ * R AZ AZ) * zx
     + (R AY AX * R AX AX + R AY AY * R AX AY + R AY AZ * R AX AZ) * xy
     + (R AY AX * R AY AX + R AY AY * R AY AY + R AY AZ * R AY AZ) * yy
     + (R AY AX * R AZ AX + R AY AY * R AZ AY + R AY AZ * R AZ AZ) * zy
     + (R AZ AX * R AX AX + R AZ AY * R AX AY + R AZ AZ * R AX AZ) * xz
     + (R AZ AX * R AY AX + R AZ AY * R AY AY + R AZ AZ * R AY AZ) * yz
     + (R AZ AX * R AZ AX + R AZ AY * R AZ AY + R AZ AZ * R AZ AZ) * zz); [ring|].
  rewrite H00, H01, H02, H10, H11, H12, H20, H21, H22. ring.
Qed.

Theorem euler_subst R f : peq (euler (subst R f)) (subst R (euler f)).
Proof.
  intro J. unfold euler. rewrite !subst_app, !Jsum_app.
  rewrite !subst_mulv, !Jsum_mullin_exp.
  rewrite !(Jsum_mulv _ J (dv _ (subst R f))), !dv_subst. unfold sum3.
  rewrite <- !Jsum_mulv. ring.
Qed.

Lemma mullin_mullin_exp J l l' g :
  Jsum J (mullin l (mullin l' g))
  = sum3 (fun k => sum3 (fun m => l k * l' m * Jsum J (mulv k (mulv m g)))).
Proof.
  rewrite Jsum_mullin_exp, !Jsum_mulv, !Jsum_mullin_exp, <- !Jsum_mulv. unfold sum3. ring.
Qed.

Theorem rsq_subst R f : orth_rows (transpose R) -> peq (rsq (subst R f)) (subst R (rsq f)).
Proof.
  intros HO J. unfold rsq. rewrite !subst_app, !Jsum_app. symmetry.
  assert (E : forall i, Jsum J (subst R (mulv i (mulv i f)))
                        = Jsum J (mullin (R i) (mullin (R i) (subst R f)))).
  { intro i. rewrite subst_mulv. apply (adjoint_cong _ _ (Jsum_mullin (R i))), subst_mulv. }
  rewrite !E, !mullin_mullin_exp. unfold sum3.
  pose proof (HO AX AX) as H00. pose proof (HO AX AY) as H01. pose proof (HO AX AZ) as H02.
  pose proof (HO AY AX) as H10. pose proof (HO AY AY) as H11. pose proof (HO AY AZ) as H12.
  pose proof (HO AZ AX) as H20. pose proof (HO AZ AY) as H21. pose proof (HO AZ AZ) as H22.
  unfold sum3, delta3, transpose in *. cbn [axis_eqb] in *.
  set (G := subst R f).
  generalize (Jsum J (mulv AX (mulv AX G))) (Jsum J (mulv AX (mulv AY G))) (Jsum J (mulv AX (mulv AZ G)))
    (Jsum J (mulv AY (mulv AX G))) (Jsum J (mulv AY (mulv AY G))) (Jsum J (mulv AY (mulv AZ G)))
    (Jsum J (mulv AZ (mulv AX G))) (Jsum J (mulv AZ (mulv AY G))) (Jsum J (mulv AZ (mulv AZ G))).
  intros xx xy xz yx yy yz zx zy zz.
  transitivity
    ((R AX AX * R AX AX + R AY AX * R AY AX + R AZ AX * R AZ AX) * xx
     + (R AX AX * R AX AY + R AY AX * R AY AY + R AZ AX * R AZ AY) * xy
     + (R AX AX * R AX AZ + R AY AX * R AY AZ + R AZ AX * R AZ AZ) * xz
     + (R AX AY * R AX AX + R AY AY * R AY AX + R AZ AY * R AZ AX) * yx
     + (R AX AY * R AX AY + R AY AY * R AY AY + R AZ AY * R AZ AY) * yy
     + (R AX AY * R AX AZ + R AY AY * R AY AZ + R AZ AY * R AZ AZ) * yz
     + (R AX AZ * R AX AX + R AY AZ * R AY AX + R AZ AZ * R AZ AX) * zx
     + (R AX AZ * R AX AY + R AY AZ * R AY AY + R AZ AZ * R AZ AY) * zy
     + (R AX AZ * R AX AZ + R AY AZ * R AY AZ + R AZ AZ * R AZ AZ) * zz); [ring|].
  rewrite H00, H01, H02, H10, H11, H12, H20, H21, H22. ring.
Qed.

(* the kinetic operator commutes with every orthogonal substitution (R R^T = R^T R = 1) *)
Theorem kinop_subst R h beta f : orth_rows R -> orth_rows (transpose R) ->
  peq (kinop h beta (subst R f)) (subst R (kinop h beta f)).
Proof.
  intros HR HC J. unfold kinop.
  rewrite subst_pscale3, !Jsum_pscale3, !subst_app, !Jsum_app, !subst_pscale3, !Jsum_pscale3.
  rewrite (lap_subst R f HR), (euler_subst R f), (rsq_subst R f HC). reflexivity.
Qed.

Lemma adjoint_id : adjoint (fun f => f) (fun J => J).
Proof. intros J f. reflexivity. Qed.
Lemma adjoint_app2 op1 opT1 op2 opT2 : adjoint op1 opT1 -> adjoint op2 opT2 ->
  adjoint (fun f => op1 f ++ op2 f) (fun J m => opT1 J m + opT2 J m).
Proof. intros A1 A2 J f. now rewrite Jsum_app, A1, A2, Jsum_Jadd. Qed.
Lemma adjoint_scale c op opT : adjoint op opT ->
  adjoint (fun f => pscale3 c (op f)) (fun J m => c * opT J m).
Proof. intros A J f. now rewrite Jsum_pscale3, A, Jsum_Jscale. Qed.
Lemma adjoint_comp op1 opT1 op2 opT2 : adjoint op1 opT1 -> adjoint op2 opT2 ->
  adjoint (fun f => op1 (op2 f)) (fun J => opT2 (opT1 J)).
Proof. intros A1 A2 J f. now rewrite A1, A2. Qed.

Lemma kinop_adjoint h beta : exists opT, adjoint (kinop h beta) opT.
Proof.
  eexists. unfold kinop, lap, euler, rsq.
  apply adjoint_scale.
  apply adjoint_app2; [|apply adjoint_app2; [|apply adjoint_app2]].
  - apply adjoint_app2; [|apply adjoint_app2].
    + apply (adjoint_comp _ _ _ _ (Jsum_dv AX) (Jsum_dv AX)).
    + apply (adjoint_comp _ _ _ _ (Jsum_dv AY) (Jsum_dv AY)).
    + apply (adjoint_comp _ _ _ _ (Jsum_dv AZ) (Jsum_dv AZ)).
  - apply (adjoint_scale _ (fun f => mulv AX (dv AX f) ++ mulv AY (dv AY f) ++ mulv AZ (dv AZ f))).
    apply adjoint_app2; [|apply adjoint_app2].
    + apply (adjoint_comp _ _ _ _ (Jsum_mulv AX) (Jsum_dv AX)).
    + apply (adjoint_comp _ _ _ _ (Jsum_mulv AY) (Jsum_dv AY)).
    + apply (adjoint_comp _ _ _ _ (Jsum_mulv AZ) (Jsum_dv AZ)).
  - apply (adjoint_scale _ (fun f => f)). apply adjoint_id.
  - apply (adjoint_scale _ (fun f => mulv AX (mulv AX f) ++ mulv AY (mulv AY f) ++ mulv AZ (mulv AZ f))).
    apply adjoint_app2; [|apply adjoint_app2].
    + apply (adjoint_comp _ _ _ _ (Jsum_mulv AX) (Jsum_mulv AX)).
    + apply (adjoint_comp _ _ _ _ (Jsum_mulv AY) (Jsum_mulv AY)).
    + apply (adjoint_comp _ _ _ _ (Jsum_mulv AZ) (Jsum_mulv AZ)).
Qed.
Lemma kinop_cong h beta f g : peq f g -> peq (kinop h beta f) (kinop h beta g).
Proof. destruct (kinop_adjoint h beta) as [opT A]. apply (adjoint_cong _ _ A). Qed.

(* the action on index functionals: (kinT J)(b) = J applied to kinop (y^b) *)
Definition kinT (h beta : F) (J : mon -> F) : mon -> F := fun b => Jsum J (kinop h beta (mono3 b)).
Lemma Jsum_kinop h beta J f : Jsum J (kinop h beta f) = Jsum (kinT h beta J) f.
Proof.
  destruct (kinop_adjoint h beta) as [opT A]. rewrite A.
  apply Jsum_ext. intro b. unfold kinT. rewrite A. unfold mono3. cbn [Jsum fst snd]. ring.
Qed.

Lemma subst_mono3 R m : peq (subst R (mono3 m)) (subst_mon R m).
Proof. intro J. unfold subst, mono3, lift. cbn [flat_map fst snd]. rewrite Jsum_app, Jsum_pscale3.
  cbn [Jsum]. ring. Qed.

Lemma Jsum_swap (G : mon -> mon -> F) f g :
  Jsum (fun x => Jsum (fun y => G x y) g) f = Jsum (fun y => Jsum (fun x => G x y) f) g.
Proof.
  induction f as [|mc f IH]; cbn [Jsum].
  - now rewrite Jsum_J0.
  - rewrite IH, <- Jsum_Jscale, <- Jsum_Jadd. reflexivity.
Qed.

(* a bilinear form B(a, b) on index pairs that is covariant stays covariant when [kinT] acts on the second index *)
Theorem kinT_covariant (R : mat) h beta (B B' : mon -> mon -> F) :
  orth_rows R -> orth_rows (transpose R) ->
  (forall a b, Jsum (fun a' => Jsum (fun b' => B' a' b') (subst_mon R b)) (subst_mon R a) = B a b) ->
  forall a b, Jsum (fun a' => Jsum (fun b' => kinT h beta (B' a') b') (subst_mon R b)) (subst_mon R a)
              = kinT h beta (B a) b.
Proof.
  intros HR HC Hcov a b.
  rewrite (Jsum_ext _ (fun a' => Jsum (fun m => Jsum (B' a') (subst_mon R m)) (kinop h beta (mono3 b)))).
  2:{ intro a'. rewrite <- Jsum_kinop.
      rewrite (kinop_cong h beta _ _ (peq_sym _ _ (subst_mono3 R b))).
      rewrite (kinop_subst R h beta (mono3 b) HR HC). unfold subst. now rewrite Jsum_lift. }
  rewrite Jsum_swap. unfold kinT at 1. apply Jsum_ext. intro m. apply Hcov.
Qed.

End Poly3.
