(* Gauss/BridgeR.v — real-analysis half of the analytic bridge (B1) of DESIGN.md 2.6 (Coquelicot).

   The honest object: the improper Riemann integral over the whole real line,
       is_RInt_gen g (Rbar_locally m_infty) (Rbar_locally p_infty) l         ("gint g l" below),
   of g(x) = f(x) exp(-p x^2), f a polynomial (coefficient list, [peval]).

   Proved here WITHOUT evaluating any Gaussian integral:
     (a) d/dx [x^n e^{-p x^2}] = (n x^(n-1) - 2p x^(n+1)) e^{-p x^2}        [gw_derive]
     (b) x^n e^{-p x^2} -> 0 at both infinities                               [gw_lim_p, gw_lim_m]
     (c) the improper integral of the derivative in (a) exists and is 0       [gauss_integral_kills_derivatives]
     (d) if J0 is the improper integral of e^{-p x^2} then for every n the improper integral of
         x^n e^{-p x^2} EXISTS and equals J0 * m_n, m_n the algebraic moments of Moment1D.v with
         v = 1/(2p)                                                           [gauss_moments]
     (e) hence for every coefficient list f: integral of f(x) e^{-p x^2} = J0 * E f
                                                                              [gauss_bridge], shifted centre [gauss_bridge_shift]
     (f) final form of (B1): J0 = sqrt(PI/p) -> integral / sqrt(PI/p) = E f   [bridge_B1_modulo_gaussian_integral]
     (g) the Gaussian integral EXISTS and is positive                         [gaussian_integral_exists, gaussian_integral_pos]
         hence, with no hypothesis: integral of f e^{-p x^2} / integral of e^{-p x^2} = E f   [gauss_bridge_normalised]
     (h) scaling: the value for every p follows from  integral of e^{-x^2} = sqrt PI            [gaussian_integral_from_unit, bridge_B1]
   What stays outside THIS file: the single number  integral of e^{-x^2} = sqrt PI  — proved in Gauss/GaussInt.v.
   Assumptions reported by Print Assumptions: the classical real numbers of the standard library only. *)
From Coq Require Import Reals Lra Lia List.
From Coquelicot Require Import Coquelicot.
From GB Require Import Base.Field Gauss.Moment1D Gauss.Bridge Gauss.DerivBridge.
Import ListNotations.
Open Scope R_scope.

(* the improper integral over the whole line *)
Definition gint (g : R -> R) (l : R) : Prop :=
  is_RInt_gen g (Rbar_locally m_infty) (Rbar_locally p_infty) l.

(* x^n e^{-p x^2} and the polynomial-times-Gaussian form of its derivative *)
Definition gw (p : R) (n : nat) (x : R) : R := x ^ n * exp (- p * x ^ 2).
Definition dgw (p : R) (n : nat) (x : R) : R :=
  (match n with O => 0 | S n' => INR n * x ^ n' end - 2 * p * x ^ (S n)) * exp (- p * x ^ 2).

(* ------------------------------------------------------------------ *)
(* (a) the derivative *)
Lemma gw_derive p n x : is_derive (gw p n) x (dgw p n x).
Proof. exact (first_rule p n x). Qed.

Lemma gw_continuous p n x : continuous (gw p n) x.
Proof. apply (ex_derive_continuous (gw p n) x). exists (dgw p n x). apply gw_derive. Qed.

Lemma dgw_gw p n x :
  dgw p n x = match n with O => 0 | S n' => INR n * gw p n' x end - 2 * p * gw p (S n) x.
Proof. unfold dgw, gw. destruct n; ring. Qed.

Lemma dgw_continuous p n x : continuous (dgw p n) x.
Proof.
  apply (continuous_ext (fun x => match n with O => 0 | S n' => INR n * gw p n' x end
                                   - 2 * p * gw p (S n) x)).
  - intro t. symmetry. apply dgw_gw.
  - apply (continuous_minus (fun x => match n with O => 0 | S n' => INR n * gw p n' x end)
                            (fun x => 2 * p * gw p (S n) x)).
    + destruct n as [|n']; [apply continuous_const|].
      apply (continuous_scal_r (INR (S n')) (gw p n')). apply gw_continuous.
    + apply (continuous_scal_r (2 * p) (gw p (S n))). apply gw_continuous.
Qed.

Lemma Derive_gw p n x : Derive (gw p n) x = dgw p n x.
Proof. apply is_derive_unique. apply gw_derive. Qed.

(* ------------------------------------------------------------------ *)
(* (b) decay at infinity *)
Lemma exp_pow_INR (y : R) (m : nat) : exp y ^ m = exp (INR m * y).
Proof.
  induction m as [|m IH]; [cbn [pow INR]; now rewrite Rmult_0_l, exp_0|].
  rewrite S_INR. cbn [pow]. rewrite IH, <- exp_plus. f_equal. ring.
Qed.

Lemma pow_le_self (r : R) (m : nat) : 0 <= r <= 1 -> r ^ (S m) <= r.
Proof.
  intros [H0 H1]. cbn [pow].
  assert (Hm : r ^ m <= 1) by (rewrite <- (pow1 m); apply pow_incr; lra).
  assert (Hm0 : 0 <= r ^ m) by (apply pow_le; lra). nra.
Qed.

(* |x| e^{-q x^2} <= 1/(q |x|) *)
Lemma lin_gauss_bound q x : 0 < q -> 0 < Rabs x -> Rabs x * exp (- (q * x ^ 2)) <= / (q * Rabs x).
Proof.
  intros Hq Hx.
  assert (Hsq : x ^ 2 = Rabs x * Rabs x) by (rewrite <- pow2_abs; ring).
  assert (Ht : 0 < q * x ^ 2) by (rewrite Hsq; apply Rmult_lt_0_compat; [lra|nra]).
  rewrite exp_Ropp.
  assert (He : q * x ^ 2 <= exp (q * x ^ 2)) by (pose proof (exp_ineq1_le (q * x ^ 2)); lra).
  assert (Hi : / exp (q * x ^ 2) <= / (q * x ^ 2)) by (apply Rinv_le_contravar; lra).
  apply Rle_trans with (Rabs x * / (q * x ^ 2)).
  - apply Rmult_le_compat_l; lra.
  - right. rewrite Hsq. field. split; lra.
Qed.

Lemma gw_bound p n x : 0 < p -> 1 <= Rabs x -> INR (S n) / p <= Rabs x ->
  Rabs (gw p n x) <= (INR (S n) / p) / Rabs x.
Proof.
  intros Hp H1 H2. set (m := S n). set (q := p / INR m).
  assert (Hm : 0 < INR m) by (apply lt_0_INR; unfold m; lia).
  assert (Hq : 0 < q) by (unfold q; apply Rdiv_lt_0_compat; lra).
  assert (Hx : 0 < Rabs x) by lra.
  unfold gw. rewrite Rabs_mult, <- RPow_abs, (Rabs_pos_eq (exp _)) by (left; apply exp_pos).
  replace (- p * x ^ 2) with (INR m * (- (q * x ^ 2))) by (unfold q; field; lra).
  rewrite <- exp_pow_INR.
  apply Rle_trans with (Rabs x ^ m * exp (- (q * x ^ 2)) ^ m).
  - apply Rmult_le_compat_r; [apply pow_le; left; apply exp_pos|].
    apply Rle_pow; [exact H1 | unfold m; lia].
  - rewrite <- Rpow_mult_distr.
    pose proof (lin_gauss_bound q x Hq Hx) as Hb.
    assert (Hpos : 0 <= Rabs x * exp (- (q * x ^ 2)))
      by (apply Rmult_le_pos; [lra | left; apply exp_pos]).
    assert (Heq : / (q * Rabs x) = INR m / p / Rabs x) by (unfold q; field; repeat split; lra).
    assert (Hle1 : / (q * Rabs x) <= 1).
    { rewrite Heq. apply Rmult_le_reg_r with (Rabs x); [lra|].
      unfold Rdiv at 1. rewrite Rmult_assoc, Rinv_l by lra. fold m in H2. lra. }
    rewrite <- Heq.
    apply Rle_trans with ((/ (q * Rabs x)) ^ m).
    + apply pow_incr. split; assumption.
    + unfold m. apply pow_le_self. split; [|exact Hle1]. lra.
Qed.

Lemma decay_from_bound (f : R -> R) (C : R) : 0 <= C ->
  (forall x, 1 <= Rabs x -> C <= Rabs x -> Rabs (f x) <= C / Rabs x) ->
  filterlim f (Rbar_locally p_infty) (locally 0) /\ filterlim f (Rbar_locally m_infty) (locally 0).
Proof.
  intros HC Hb.
  assert (Key : forall eps : posreal, forall x, Rmax (Rmax 1 C) (C / eps) < Rabs x -> Rabs (f x - 0) < eps).
  { intros eps x Hx. destruct eps as [e He]; cbn [pos] in *.
    assert (H1 : 1 < Rabs x) by (pose proof (Rmax_l (Rmax 1 C) (C / e)); pose proof (Rmax_l 1 C); lra).
    assert (H2 : C < Rabs x) by (pose proof (Rmax_l (Rmax 1 C) (C / e)); pose proof (Rmax_r 1 C); lra).
    assert (H3 : C / e < Rabs x) by (pose proof (Rmax_r (Rmax 1 C) (C / e)); lra).
    rewrite Rminus_0_r. apply Rle_lt_trans with (C / Rabs x); [apply Hb; lra|].
    apply Rmult_lt_reg_r with (Rabs x); [lra|]. unfold Rdiv. rewrite Rmult_assoc, Rinv_l by lra.
    apply Rmult_lt_reg_r with (/ e); [apply Rinv_0_lt_compat; lra|].
    replace (e * Rabs x * / e) with (Rabs x) by (field; lra). unfold Rdiv in H3. lra. }
  split; intros P [eps HP].
  - exists (Rmax (Rmax 1 C) (C / eps)). intros x Hx. apply HP. apply Key.
    apply Rlt_le_trans with x; [exact Hx | apply Rle_abs].
  - exists (- Rmax (Rmax 1 C) (C / eps)). intros x Hx. apply HP. apply Key.
    apply Rlt_le_trans with (- x); [lra | rewrite <- Rabs_Ropp; apply Rle_abs].
Qed.

Lemma gw_decay p n : 0 < p ->
  filterlim (gw p n) (Rbar_locally p_infty) (locally 0) /\
  filterlim (gw p n) (Rbar_locally m_infty) (locally 0).
Proof.
  intro Hp. apply (decay_from_bound (gw p n) (INR (S n) / p)).
  - apply Rlt_le, Rdiv_lt_0_compat; [apply lt_0_INR; lia | exact Hp].
  - intros x H1 H2. now apply gw_bound.
Qed.

Lemma gw_lim_p p n : 0 < p -> filterlim (gw p n) (Rbar_locally p_infty) (locally 0).
Proof. intro Hp. apply (gw_decay p n Hp). Qed.
Lemma gw_lim_m p n : 0 < p -> filterlim (gw p n) (Rbar_locally m_infty) (locally 0).
Proof. intro Hp. apply (gw_decay p n Hp). Qed.

(* ------------------------------------------------------------------ *)
(* (c) the integral over R of the derivative of polynomial x Gaussian vanishes *)
Lemma gint_ext (f g : R -> R) (l l' : R) :
  (forall x, f x = g x) -> l = l' -> gint f l -> gint g l'.
Proof.
  intros Hfg <- H. unfold gint in *.
  apply (is_RInt_gen_ext f g); [|exact H]. apply filter_forall. intros ab x _. apply Hfg.
Qed.

Theorem gauss_integral_kills_derivatives p n : 0 < p -> gint (dgw p n) 0.
Proof.
  intro Hp.
  apply (gint_ext (Derive (gw p n)) (dgw p n) (0 - 0) 0); [apply Derive_gw | ring |].
  unfold gint. apply is_RInt_gen_Derive.
  - apply filter_forall. intros ab x _. eexists. apply gw_derive.
  - apply filter_forall. intros ab x _.
    apply (continuous_ext (dgw p n)); [intro t; symmetry; apply Derive_gw | apply dgw_continuous].
  - now apply gw_lim_m.
  - now apply gw_lim_p.
Qed.

(* ------------------------------------------------------------------ *)
(* linearity of the improper integral, in the form used below *)
Lemma gint_scal (k : R) (f : R -> R) (l : R) : gint f l -> gint (fun x => k * f x) (k * l).
Proof. intro H. exact (is_RInt_gen_scal f k l H). Qed.
Lemma gint_plus (f g : R -> R) (lf lg : R) :
  gint f lf -> gint g lg -> gint (fun x => f x + g x) (lf + lg).
Proof. intros Hf Hg. exact (is_RInt_gen_plus f g lf lg Hf Hg). Qed.
Lemma gint_minus (f g : R -> R) (lf lg : R) :
  gint f lf -> gint g lg -> gint (fun x => f x - g x) (lf - lg).
Proof. intros Hf Hg. exact (is_RInt_gen_minus f g lf lg Hf Hg). Qed.
Lemma gint_zero : gint (fun _ => 0) 0.
Proof.
  apply (gint_ext (fun x => 0 * dgw 1 0 x) _ (0 * 0)); [intro; ring | ring |].
  apply (gint_scal 0 (dgw 1 0) 0). apply gauss_integral_kills_derivatives. lra.
Qed.
Lemma gint_unique (f : R -> R) (l l' : R) : gint f l -> gint f l' -> l = l'.
Proof.
  intros H H'. unfold gint in *.
  rewrite <- (is_RInt_gen_unique f l H). exact (is_RInt_gen_unique f l' H').
Qed.

(* ------------------------------------------------------------------ *)
(* (d) all moments exist and are J0 * m_n *)
Definition vR (p : R) : R := / (2 * p).
Definition momR (p : R) (n : nat) : R := mom RKd (vR p) n.

Lemma momR_0 p : momR p 0 = 1. Proof. reflexivity. Qed.
Lemma momR_1 p : momR p 1 = 0. Proof. reflexivity. Qed.
Lemma momR_SS p n : momR p (S (S n)) = INR (S n) * vR p * momR p n.
Proof. unfold momR. rewrite (mom_SS RKd), ofnat_INR. reflexivity. Qed.

Theorem gauss_moments (p J0 : R) : 0 < p ->
  gint (fun x => exp (- p * x ^ 2)) J0 ->
  forall n, gint (gw p n) (J0 * momR p n).
Proof.
  intros Hp H0.
  assert (Hboth : forall n, gint (gw p n) (J0 * momR p n) /\ gint (gw p (S n)) (J0 * momR p (S n))).
  { induction n as [|n [A B]].
    - split.
      + apply (gint_ext (fun x => exp (- p * x ^ 2)) _ J0); [| |exact H0].
        * intro x. unfold gw. cbn [pow]. ring.
        * rewrite momR_0. ring.
      + apply (gint_ext (fun x => (- / (2 * p)) * dgw p 0 x) _ ((- / (2 * p)) * 0)).
        * intro x. unfold gw, dgw. field. lra.
        * rewrite momR_1. ring.
        * exact (gint_scal (- / (2 * p)) (dgw p 0) 0 (gauss_integral_kills_derivatives p 0 Hp)).
    - split; [exact B|].
      apply (gint_ext (fun x => / (2 * p) * (INR (S n) * gw p n x - dgw p (S n) x)) _
                      (/ (2 * p) * (INR (S n) * (J0 * momR p n) - 0))).
      + intro x. unfold gw, dgw. field. lra.
      + rewrite momR_SS. unfold vR. ring.
      + apply (gint_scal (/ (2 * p)) (fun x => INR (S n) * gw p n x - dgw p (S n) x)).
        apply (gint_minus (fun x => INR (S n) * gw p n x) (dgw p (S n))).
        * exact (gint_scal (INR (S n)) (gw p n) _ A).
        * exact (gauss_integral_kills_derivatives p (S n) Hp). }
  intro n. exact (proj1 (Hboth n)).
Qed.

(* J1 = 0 unconditionally (no hypothesis on J0) *)
Corollary gauss_first_moment p : 0 < p -> gint (gw p 1) 0.
Proof.
  intro Hp. apply (gint_ext (fun x => (- / (2 * p)) * dgw p 0 x) _ ((- / (2 * p)) * 0)).
  - intro x. unfold gw, dgw. field. lra.
  - ring.
  - exact (gint_scal (- / (2 * p)) (dgw p 0) 0 (gauss_integral_kills_derivatives p 0 Hp)).
Qed.

(* conditional form asked for: whatever values the improper integrals J n have, J n = J 0 * m_n *)
Corollary gauss_moments_values (p : R) (J : nat -> R) : 0 < p ->
  (forall n, gint (gw p n) (J n)) -> forall n, J n = J 0%nat * momR p n.
Proof.
  intros Hp HJ n. apply (gint_unique (gw p n)); [apply HJ|].
  apply gauss_moments; [exact Hp|].
  apply (gint_ext (gw p 0) _ (J 0%nat) _); [intro x; unfold gw; cbn [pow]; ring | reflexivity | apply HJ].
Qed.

(* ------------------------------------------------------------------ *)
(* (e) every polynomial: integral of f(x) e^{-p x^2} = J0 * E f *)
Fixpoint peval (f : list R) (x : R) : R :=
  match f with [] => 0 | c :: f' => c + x * peval f' x end.

Lemma gauss_bridge_aux (p J0 : R) : 0 < p ->
  gint (fun x => exp (- p * x ^ 2)) J0 ->
  forall f n, gint (fun x => x ^ n * peval f x * exp (- p * x ^ 2)) (J0 * Eaux RKd (vR p) n f).
Proof.
  intros Hp H0. induction f as [|c f IH]; intro n.
  - apply (gint_ext (fun _ => 0) _ 0); [intro x; cbn [peval]; ring | cbn [Eaux f0 RKd]; ring | apply gint_zero].
  - apply (gint_ext (fun x => c * gw p n x + x ^ (S n) * peval f x * exp (- p * x ^ 2)) _
                    (c * (J0 * momR p n) + J0 * Eaux RKd (vR p) (S n) f)).
    + intro x. unfold gw. cbn [peval pow]. ring.
    + cbn [Eaux fadd fmul RKd]. unfold momR. ring.
    + apply (gint_plus (fun x => c * gw p n x) (fun x => x ^ (S n) * peval f x * exp (- p * x ^ 2))).
      * exact (gint_scal c (gw p n) _ (gauss_moments p J0 Hp H0 n)).
      * exact (IH (S n)).
Qed.

Theorem gauss_bridge (p J0 : R) : 0 < p ->
  gint (fun x => exp (- p * x ^ 2)) J0 ->
  forall f, gint (fun x => peval f x * exp (- p * x ^ 2)) (J0 * E RKd (vR p) f).
Proof.
  intros Hp H0 f.
  apply (gint_ext (fun x => x ^ 0 * peval f x * exp (- p * x ^ 2)) _ (J0 * Eaux RKd (vR p) 0 f));
    [intro x; cbn [pow]; ring | reflexivity | now apply gauss_bridge_aux].
Qed.

(* ------------------------------------------------------------------ *)
(* what [gint] says, spelled out: for every eps there is M such that every proper integral over
   [a, b] with a < -M and M < b exists and is within eps of l *)
Lemma gint_spelled_out (g : R -> R) (l : R) :
  gint g l <->
  (forall eps : posreal, exists M : R, forall a b : R, a < - M -> M < b ->
     exists y : R, is_RInt g a b y /\ Rabs (y - l) < eps).
Proof.
  unfold gint, is_RInt_gen, filterlimi, filter_le, filtermapi. split.
  - intros H eps.
    destruct (H (fun y => Rabs (y - l) < eps)) as [Q1 Q2 [M1 H1] [M2 H2] HQ].
    { exists eps. intros y Hy. exact Hy. }
    exists (Rmax (- M1) M2). intros a b Ha Hb.
    apply (HQ a b).
    + apply H1. pose proof (Rmax_l (- M1) M2). lra.
    + apply H2. pose proof (Rmax_r (- M1) M2). lra.
  - intros H P [eps HP]. destruct (H eps) as [M HM].
    apply (Filter_prod _ _ _ (fun a => a < - M) (fun b => M < b)).
    + exists (- M). intros x Hx. exact Hx.
    + exists M. intros x Hx. exact Hx.
    + intros a b Ha Hb. destruct (HM a b Ha Hb) as [y [Hy Hd]]. exists y. split; [exact Hy|].
      apply HP. exact Hd.
Qed.

(* translation of the integration variable: the centre P of DESIGN.md 2.3 *)
Lemma gint_shift (g : R -> R) (l c : R) : gint g l -> gint (fun x => g (x - c)) l.
Proof.
  rewrite !gint_spelled_out. intros H eps. destruct (H eps) as [M HM].
  exists (M + Rabs c). intros a b Ha Hb. pose proof (Rle_abs c). pose proof (Rle_abs (- c)) as H'.
  rewrite Rabs_Ropp in H'.
  destruct (HM (a - c) (b - c)) as [y [Hy Hd]]; [lra | lra |].
  exists y. split; [|exact Hd].
  apply (is_RInt_ext (fun x => scal 1 (g (1 * x + - c)))).
  - intros x _. unfold scal; cbn. unfold mult; cbn. rewrite Rmult_1_l. f_equal. ring.
  - apply (is_RInt_comp_lin g 1 (- c) a b y).
    replace (1 * a + - c) with (a - c) by ring. replace (1 * b + - c) with (b - c) by ring. exact Hy.
Qed.

Theorem gauss_bridge_shift (p P J0 : R) : 0 < p ->
  gint (fun x => exp (- p * x ^ 2)) J0 ->
  forall f, gint (fun x => peval f (x - P) * exp (- p * (x - P) ^ 2)) (J0 * E RKd (vR p) f).
Proof.
  intros Hp H0 f.
  exact (gint_shift (fun y => peval f y * exp (- p * y ^ 2)) _ P (gauss_bridge p J0 Hp H0 f)).
Qed.

(* ------------------------------------------------------------------ *)
(* (f) the final form of (B1), modulo the value of the Gaussian integral *)
Definition Gint (g : R -> R) : R := RInt_gen g (Rbar_locally m_infty) (Rbar_locally p_infty).

Lemma Gint_correct g l : gint g l -> Gint g = l.
Proof. intro H. exact (is_RInt_gen_unique g l H). Qed.

Lemma sqrt_pi_p_pos p : 0 < p -> 0 < sqrt (PI / p).
Proof. intro Hp. apply sqrt_lt_R0. apply Rdiv_lt_0_compat; [apply PI_RGT_0 | exact Hp]. Qed.

Theorem bridge_B1_modulo_gaussian_integral (p P : R) : 0 < p ->
  gint (fun x => exp (- p * x ^ 2)) (sqrt (PI / p)) ->
  forall f : list R,
    gint (fun x => peval f (x - P) * exp (- p * (x - P) ^ 2)) (sqrt (PI / p) * E RKd (vR p) f)
    /\ Gint (fun x => peval f (x - P) * exp (- p * (x - P) ^ 2)) / sqrt (PI / p) = E RKd (vR p) f.
Proof.
  intros Hp H0 f. pose proof (gauss_bridge_shift p P _ Hp H0 f) as H. split; [exact H|].
  rewrite (Gint_correct _ _ H). field. apply Rgt_not_eq. now apply sqrt_pi_p_pos.
Qed.

(* monomials (x-P)^n: the statement (B1) of DESIGN.md 2.6 *)
Corollary bridge_B1_monomials (p P : R) : 0 < p ->
  gint (fun x => exp (- p * x ^ 2)) (sqrt (PI / p)) ->
  forall n, gint (fun x => (x - P) ^ n * exp (- p * (x - P) ^ 2)) (sqrt (PI / p) * momR p n).
Proof.
  intros Hp H0 n.
  exact (gint_shift (gw p n) _ P (gauss_moments p _ Hp H0 n)).
Qed.

(* ------------------------------------------------------------------ *)
(* list polynomials over R: evaluation commutes with the list operations of Moment1D.v, and
   [gderiv] of Bridge.v IS the derivative of polynomial x Gaussian *)
Lemma peval_padd f g x : peval (padd RKd f g) x = peval f x + peval g x.
Proof. revert g; induction f as [|a f IH]; intro g; cbn [padd peval]; [ring|].
  destruct g as [|b g]; cbn [padd peval fadd RKd]; [ring|]. rewrite IH. ring. Qed.
Lemma peval_pscale c f x : peval (pscale RKd c f) x = c * peval f x.
Proof. induction f as [|a f IH]; [cbn [pscale map peval]; ring|].
  change (pscale RKd c (a :: f)) with ((c * a) :: pscale RKd c f). cbn [peval]. rewrite IH. ring. Qed.
Lemma peval_pshift f x : peval (pshift RKd f) x = x * peval f x.
Proof. cbn [pshift peval f0 RKd]. ring. Qed.
Lemma peval_pderiv_aux_S k f x :
  peval (pderiv_aux RKd (S k) f) x = peval f x + peval (pderiv_aux RKd k f) x.
Proof. revert k; induction f as [|a f IH]; intro k; cbn [pderiv_aux peval]; [ring|].
  rewrite (IH (S k)). cbn [ofnat fadd fmul f1 RKd]. ring. Qed.
Lemma peval_pderiv_aux_0 f x : peval (pderiv_aux RKd 0 f) x = x * peval (pderiv RKd f) x.
Proof. destruct f as [|a f]; cbn [pderiv_aux pderiv peval ofnat fmul f0 RKd]; ring. Qed.
Lemma peval_pderiv_cons c f x :
  peval (pderiv RKd (c :: f)) x = peval f x + x * peval (pderiv RKd f) x.
Proof. cbn [pderiv]. now rewrite peval_pderiv_aux_S, peval_pderiv_aux_0. Qed.

Lemma peval_derive f x : is_derive (peval f) x (peval (pderiv RKd f) x).
Proof.
  revert x. induction f as [|c f IH]; intro x.
  - cbn [pderiv peval]. apply (is_derive_const (0 : R)).
  - rewrite peval_pderiv_cons.
    replace (peval f x + x * peval (pderiv RKd f) x)
      with (0 + (1 * peval f x + x * peval (pderiv RKd f) x)) by ring.
    apply (is_derive_plus (fun _ : R => c) (fun t => t * peval f t) x 0).
    + apply (is_derive_const c).
    + apply (is_derive_mult (fun t : R => t) (peval f) x 1 (peval (pderiv RKd f) x)).
      * apply (is_derive_id x).
      * apply IH.
      * exact Rmult_comm.
Qed.

Lemma peval_gderiv p f x :
  peval (gderiv RKd p f) x = peval (pderiv RKd f) x - 2 * p * x * peval f x.
Proof. unfold gderiv. rewrite peval_padd, peval_pscale, peval_pshift.
  cbn [fopp fmul fadd f1 RKd]. ring. Qed.

(* d/dx [ f(x) e^{-p x^2} ] = (gderiv f)(x) e^{-p x^2}, f a coefficient list *)
Theorem poly_gauss_derive p f x :
  is_derive (fun t => peval f t * exp (- p * t ^ 2)) x
            (peval (gderiv RKd p f) x * exp (- p * x ^ 2)).
Proof.
  rewrite peval_gderiv.
  replace ((peval (pderiv RKd f) x - 2 * p * x * peval f x) * exp (- p * x ^ 2))
    with (peval (pderiv RKd f) x * exp (- p * x ^ 2)
          + peval f x * (- (2 * p * x) * exp (- p * x ^ 2))) by ring.
  apply (is_derive_mult (peval f) (fun t => exp (- p * t ^ 2)) x).
  - apply peval_derive.
  - apply gauss_derive.
  - exact Rmult_comm.
Qed.

(* the improper integral of the derivative of ANY polynomial x Gaussian is 0 (no hypothesis on
   the Gaussian integral): sum of the monomial case *)
Fixpoint dsum (p : R) (n : nat) (f : list R) (x : R) : R :=
  match f with [] => 0 | c :: f' => c * dgw p n x + dsum p (S n) f' x end.

Lemma gint_dsum p : 0 < p -> forall f n, gint (dsum p n f) 0.
Proof.
  intro Hp. induction f as [|c f IH]; intro n.
  - exact gint_zero.
  - apply (gint_ext (fun x => c * dgw p n x + dsum p (S n) f x) _ (c * 0 + 0));
      [intro x; reflexivity | ring |].
    apply (gint_plus (fun x => c * dgw p n x) (dsum p (S n) f)).
    + exact (gint_scal c (dgw p n) 0 (gauss_integral_kills_derivatives p n Hp)).
    + apply IH.
Qed.

Lemma dsum_eq p f : forall n x,
  dsum p n f x =
  (x ^ n * peval (gderiv RKd p f) x
   + match n with O => 0 | S n' => INR n * x ^ n' end * peval f x) * exp (- p * x ^ 2).
Proof.
  induction f as [|c f IH]; intros n x.
  - rewrite peval_gderiv. cbn [dsum pderiv peval]. ring.
  - cbn [dsum]. rewrite (IH (S n) x), !peval_gderiv, peval_pderiv_cons. cbn [peval]. unfold dgw.
    destruct n as [|n'].
    + cbn [pow INR]. ring.
    + rewrite (S_INR (S n')). cbn [pow]. ring.
Qed.

Theorem gauss_integral_kills_all_derivatives p f : 0 < p ->
  gint (fun x => peval (gderiv RKd p f) x * exp (- p * x ^ 2)) 0.
Proof.
  intro Hp. apply (gint_ext (dsum p 0 f) _ 0 0); [|reflexivity|now apply gint_dsum].
  intro x. rewrite dsum_eq. cbn [pow]. ring.
Qed.

(* ------------------------------------------------------------------ *)
(* the honest integral, as a functional on coefficient lists, satisfies the hypotheses of the
   abstract uniqueness theorem of Bridge.v; so [bridge_uniqueness] applies to it *)
Definition Gfun (p : R) (f : list R) : R := Gint (fun x => peval f x * exp (- p * x ^ 2)).

Lemma vR_law p : 0 < p -> fmul RKd (fmul RKd (fadd RKd (f1 RKd) (f1 RKd)) p) (vR p) = f1 RKd.
Proof. intro Hp. cbn [fmul fadd f1 RKd]. unfold vR. field. lra. Qed.

Theorem Gfun_bridge_laws (p J0 : R) : 0 < p ->
  gint (fun x => exp (- p * x ^ 2)) J0 ->
  plinear RKd (Gfun p) /\ kills_all_derivatives RKd p (Gfun p) /\ Gfun p [1] = J0.
Proof.
  intros Hp H0.
  assert (Hex : forall f, gint (fun x => peval f x * exp (- p * x ^ 2)) (Gfun p f)).
  { intro f. pose proof (gauss_bridge p J0 Hp H0 f) as H. unfold Gfun.
    rewrite (Gint_correct _ _ H). exact H. }
  split; [split|split].
  - intros f g. apply Gint_correct.
    apply (gint_ext (fun x => peval f x * exp (- p * x ^ 2) + peval g x * exp (- p * x ^ 2)) _
                    (Gfun p f + Gfun p g)); [intro x; rewrite peval_padd; ring | reflexivity |].
    exact (gint_plus _ _ _ _ (Hex f) (Hex g)).
  - intros c f. apply Gint_correct.
    apply (gint_ext (fun x => c * (peval f x * exp (- p * x ^ 2))) _ (c * Gfun p f));
      [intro x; rewrite peval_pscale; ring | reflexivity |].
    exact (gint_scal c _ _ (Hex f)).
  - intro f. apply Gint_correct. now apply gauss_integral_kills_all_derivatives.
  - apply Gint_correct.
    apply (gint_ext (fun x => exp (- p * x ^ 2)) _ J0 J0); [|reflexivity|exact H0].
    intro x. cbn [peval]. ring.
Qed.

(* second proof of [gauss_bridge], through the abstract theorem *)
Corollary gauss_bridge_via_uniqueness (p J0 : R) : 0 < p ->
  gint (fun x => exp (- p * x ^ 2)) J0 ->
  forall f, Gfun p f = J0 * E RKd (vR p) f.
Proof.
  intros Hp H0 f. destruct (Gfun_bridge_laws p J0 Hp H0) as [HL [HK H1]].
  rewrite <- H1.
  exact (bridge_uniqueness RKd RKd_field p (vR p) (vR_law p Hp) (Gfun p) HL
           (kills_all_kills RKd p (Gfun p) HK) f).
Qed.

(* ------------------------------------------------------------------ *)
(* EXISTENCE of the Gaussian integral (not its value): Cauchy criterion on the product filter,
   tails bounded by  int_u^w |x| e^{-p x^2} dx = (e^{-p u^2} - e^{-p w^2}) / (2p) *)
Lemma exp_le_compat x y : x <= y -> exp x <= exp y.
Proof. intros [H|H]; [left; now apply exp_increasing | right; now f_equal]. Qed.

Section Existence.
Variable p : R.
Hypothesis Hp : 0 < p.
Let g : R -> R := gw p 0.

Lemma g_eq x : g x = exp (- p * x ^ 2).
Proof. unfold g, gw. cbn [pow]. ring. Qed.
Lemma g_pos x : 0 < g x.
Proof. rewrite g_eq. apply exp_pos. Qed.
Lemma g_ex a b : ex_RInt g a b.
Proof. apply (ex_RInt_continuous g a b). intros z _. apply gw_continuous. Qed.
Lemma g_mono M x : M * M <= x * x -> g x <= g M.
Proof. intro H. rewrite !g_eq. apply exp_le_compat. nra. Qed.

Lemma tail_int s a b :
  is_RInt (fun x => s * gw p 1 x) a b ((- s / (2 * p)) * g b - (- s / (2 * p)) * g a).
Proof.
  apply (is_RInt_derive (fun x => (- s / (2 * p)) * g x) (fun x => s * gw p 1 x) a b).
  - intros x _.
    replace (s * gw p 1 x) with ((- s / (2 * p)) * dgw p 0 x) by (unfold gw, dgw; field; lra).
    apply (is_derive_scal g x (- s / (2 * p)) (dgw p 0 x)). apply gw_derive.
  - intros x _. apply (continuous_scal_r s (gw p 1)). apply gw_continuous.
Qed.

Lemma tail_ordered s M a b : s = 1 \/ s = -1 -> 1 <= M -> M <= s * a -> M <= s * b -> a <= b ->
  0 <= RInt g a b <= g M / (2 * p).
Proof.
  intros Hs HM Ha Hb Hab. split.
  - apply RInt_ge_0; [exact Hab | apply g_ex | intros x _; left; apply g_pos].
  - apply Rle_trans with (RInt (fun x => s * gw p 1 x) a b).
    + apply RInt_le; [exact Hab | apply g_ex | eexists; apply tail_int |].
      intros x Hx. assert (H1 : 1 <= s * x) by (destruct Hs; subst s; lra).
      unfold g, gw. cbn [pow]. pose proof (exp_pos (- p * (x * (x * 1)))). nra.
    + rewrite (is_RInt_unique _ _ _ _ (tail_int s a b)).
      pose proof (g_pos a). pose proof (g_pos b).
      assert (Hga : g a <= g M) by (apply g_mono; destruct Hs; subst s; nra).
      assert (Hgb : g b <= g M) by (apply g_mono; destruct Hs; subst s; nra).
      assert (Hi : 0 < / (2 * p)) by (apply Rinv_0_lt_compat; lra).
      unfold Rdiv. destruct Hs; subst s; nra.
Qed.

Lemma tail_bound s M a b : s = 1 \/ s = -1 -> 1 <= M -> M <= s * a -> M <= s * b ->
  Rabs (RInt g a b) <= g M / (2 * p).
Proof.
  intros Hs HM Ha Hb. destruct (Rle_dec a b) as [Hab|Hab].
  - destruct (tail_ordered s M a b Hs HM Ha Hb Hab) as [H0 H1]. now rewrite Rabs_pos_eq.
  - assert (Hba : b <= a) by lra.
    destruct (tail_ordered s M b a Hs HM Hb Ha Hba) as [H0 H1].
    pose proof (opp_RInt_swap g b a (g_ex b a)) as Hsw. change (- RInt g b a = RInt g a b) in Hsw.
    rewrite <- Hsw, Rabs_Ropp. now rewrite Rabs_pos_eq.
Qed.

Lemma g_small (eps : posreal) : exists M, 1 <= M /\ g M / (2 * p) + g M / (2 * p) < eps.
Proof.
  assert (He : 0 < eps * p) by (apply Rmult_lt_0_compat; [apply cond_pos | exact Hp]).
  destruct (gw_lim_p p 0 Hp (fun y => Rabs y < eps * p)) as [M0 HM0].
  { exists (mkposreal _ He). intros y Hy. change (Rabs (y - 0) < eps * p) in Hy.
    now rewrite Rminus_0_r in Hy. }
  exists (Rmax 1 (M0 + 1)). split; [apply Rmax_l|].
  assert (Hg : g (Rmax 1 (M0 + 1)) < eps * p).
  { apply Rle_lt_trans with (Rabs (g (Rmax 1 (M0 + 1)))); [apply Rle_abs|].
    apply HM0. pose proof (Rmax_r 1 (M0 + 1)). lra. }
  replace (g (Rmax 1 (M0 + 1)) / (2 * p) + g (Rmax 1 (M0 + 1)) / (2 * p))
    with (g (Rmax 1 (M0 + 1)) / p) by (field; lra).
  apply Rmult_lt_reg_r with p; [exact Hp|]. unfold Rdiv. rewrite Rmult_assoc, Rinv_l by lra. lra.
Qed.

Lemma gauss_cauchy : exists l : R,
  filterlim (fun ab : R * R => RInt g (fst ab) (snd ab))
            (filter_prod (Rbar_locally m_infty) (Rbar_locally p_infty)) (locally l).
Proof.
  apply (proj1 (filterlim_locally_cauchy
                  (F := filter_prod (Rbar_locally m_infty) (Rbar_locally p_infty))
                  (fun ab : R * R => RInt g (fst ab) (snd ab)))).
  intro eps. destruct (g_small eps) as [M [HM1 HMe]].
  exists (fun ab : R * R => fst ab < - M /\ M < snd ab). split.
  - apply (Filter_prod _ _ _ (fun a => a < - M) (fun b => M < b)).
    + exists (- M). intros x Hx. exact Hx.
    + exists M. intros x Hx. exact Hx.
    + intros a b Ha Hb. split; assumption.
  - intros [a b] [a' b'] [Ha Hb] [Ha' Hb']. cbn [fst snd] in *.
    change (Rabs (RInt g a' b' - RInt g a b) < eps).
    pose proof (RInt_Chasles g a' a b' (g_ex _ _) (g_ex _ _)) as C1.
    pose proof (RInt_Chasles g a b b' (g_ex _ _) (g_ex _ _)) as C2.
    change (RInt g a' a + RInt g a b' = RInt g a' b') in C1.
    change (RInt g a b + RInt g b b' = RInt g a b') in C2.
    replace (RInt g a' b' - RInt g a b) with (RInt g a' a + RInt g b b') by lra.
    apply Rle_lt_trans with (1 := Rabs_triang _ _).
    pose proof (tail_bound (-1) M a' a (or_intror eq_refl) HM1) as T1.
    pose proof (tail_bound 1 M b b' (or_introl eq_refl) HM1) as T2.
    assert (T1' : Rabs (RInt g a' a) <= g M / (2 * p)) by (apply T1; lra).
    assert (T2' : Rabs (RInt g b b') <= g M / (2 * p)) by (apply T2; lra).
    lra.
Qed.

Theorem gaussian_integral_exists : exists J0 : R, gint (fun x => exp (- p * x ^ 2)) J0.
Proof.
  destruct gauss_cauchy as [l Hl]. exists l.
  apply (gint_ext g _ l l); [apply g_eq | reflexivity |].
  unfold gint, is_RInt_gen, filterlimi, filter_le, filtermapi. intros P HP.
  specialize (Hl P HP). unfold filtermap in Hl. revert Hl. apply filter_imp.
  intros [a b] H. cbn [fst snd] in *. exists (RInt g a b). split; [|exact H].
  apply (RInt_correct g a b). apply g_ex.
Qed.

(* ... and it is positive (so one can divide by it) *)
Theorem gaussian_integral_pos (J0 : R) : gint (fun x => exp (- p * x ^ 2)) J0 -> 0 < J0.
Proof.
  intro H0.
  assert (Hg : gint g J0) by (apply (gint_ext _ g J0 J0 (fun x => eq_sym (g_eq x)) eq_refl H0)).
  assert (Hc : 0 < exp (- p) / 2) by (pose proof (exp_pos (- p)); lra).
  destruct (proj1 (gint_spelled_out g J0) Hg (mkposreal _ Hc)) as [M HM]. cbn [pos] in HM.
  set (a := - (Rabs M + 1)). set (b := Rabs M + 2).
  pose proof (Rle_abs M) as HaM. pose proof (Rabs_pos M) as HaM0.
  destruct (HM a b) as [y [Hy Hd]]; [unfold a; lra | unfold b; lra |].
  rewrite <- (is_RInt_unique g a b y Hy) in Hd.
  assert (Hlow : exp (- p) <= RInt g a b).
  { pose proof (RInt_Chasles g a 0 b (g_ex _ _) (g_ex _ _)) as C1.
    pose proof (RInt_Chasles g 0 1 b (g_ex _ _) (g_ex _ _)) as C2.
    change (RInt g a 0 + RInt g 0 b = RInt g a b) in C1.
    change (RInt g 0 1 + RInt g 1 b = RInt g 0 b) in C2.
    assert (P1 : 0 <= RInt g a 0)
      by (apply RInt_ge_0; [unfold a; lra | apply g_ex | intros x _; left; apply g_pos]).
    assert (P2 : 0 <= RInt g 1 b)
      by (apply RInt_ge_0; [unfold b; lra | apply g_ex | intros x _; left; apply g_pos]).
    assert (P3 : exp (- p) <= RInt g 0 1).
    { replace (exp (- p)) with (RInt (fun _ => exp (- p)) 0 1).
      - apply RInt_le; [lra | apply ex_RInt_const | apply g_ex |].
        intros x Hx. rewrite g_eq. apply exp_le_compat.
        assert (Hx2 : x ^ 2 <= 1) by (cbn [pow]; nra). nra.
      - rewrite RInt_const. unfold scal; cbn. unfold mult; cbn. ring. }
    lra. }
  apply Rabs_def2 in Hd. lra.
Qed.
End Existence.

(* ------------------------------------------------------------------ *)
(* UNCONDITIONAL normalised bridge: the Gaussian expectation of a polynomial is E f.  Nothing
   is assumed; the only thing not determined here is the VALUE of the normalising constant. *)
Definition J0R (p : R) : R := Gint (fun x => exp (- p * x ^ 2)).

Lemma J0R_correct p : 0 < p -> gint (fun x => exp (- p * x ^ 2)) (J0R p).
Proof. intro Hp. destruct (gaussian_integral_exists p Hp) as [l Hl]. unfold J0R.
  now rewrite (Gint_correct _ _ Hl). Qed.
Lemma J0R_pos p : 0 < p -> 0 < J0R p.
Proof. intro Hp. exact (gaussian_integral_pos p Hp _ (J0R_correct p Hp)). Qed.

Theorem gauss_bridge_normalised (p P : R) (f : list R) : 0 < p ->
  gint (fun x => peval f (x - P) * exp (- p * (x - P) ^ 2)) (J0R p * E RKd (vR p) f)
  /\ Gint (fun x => peval f (x - P) * exp (- p * (x - P) ^ 2)) / J0R p = E RKd (vR p) f.
Proof.
  intro Hp. pose proof (gauss_bridge_shift p P _ Hp (J0R_correct p Hp) f) as H. split; [exact H|].
  rewrite (Gint_correct _ _ H). field. apply Rgt_not_eq. now apply J0R_pos.
Qed.

(* (B1) in its final form, with the trusted fact reduced to an equation between two real numbers *)
Theorem bridge_B1_from_value (p P : R) : 0 < p -> J0R p = sqrt (PI / p) ->
  forall f : list R,
    Gint (fun x => peval f (x - P) * exp (- p * (x - P) ^ 2)) / sqrt (PI / p) = E RKd (vR p) f.
Proof. intros Hp <- f. now apply gauss_bridge_normalised. Qed.

(* ------------------------------------------------------------------ *)
(* scaling: the trusted value for every p follows from the single number  int e^{-x^2} = sqrt PI *)
Lemma gint_scale (g : R -> R) (l k : R) : 0 < k -> gint g l -> gint (fun x => g (k * x)) (l / k).
Proof.
  intros Hk. rewrite !gint_spelled_out. intros H eps.
  assert (He : 0 < eps * k) by (apply Rmult_lt_0_compat; [apply cond_pos | exact Hk]).
  destruct (H (mkposreal _ He)) as [M HM]. cbn [pos] in HM.
  exists (M / k). intros a b Ha Hb.
  assert (Hik : 0 < / k) by now apply Rinv_0_lt_compat.
  destruct (HM (k * a) (k * b)) as [y [Hy Hd]].
  { apply Rmult_lt_reg_r with (/ k); [exact Hik|].
    replace (k * a * / k) with a by (field; lra). unfold Rdiv in Ha. lra. }
  { apply Rmult_lt_reg_r with (/ k); [exact Hik|].
    replace (k * b * / k) with b by (field; lra). unfold Rdiv in Hb. lra. }
  exists (/ k * y). split.
  - apply (is_RInt_ext (fun x => scal (/ k) (scal k (g (k * x + 0))))).
    + intros x _. unfold scal; cbn. unfold mult; cbn. rewrite Rplus_0_r. field. lra.
    + apply (is_RInt_scal (fun x => scal k (g (k * x + 0))) a b (/ k) y).
      apply (is_RInt_comp_lin g k 0 a b y). now rewrite !Rplus_0_r.
  - replace (/ k * y - l / k) with ((y - l) * / k) by (field; lra).
    rewrite Rabs_mult, (Rabs_pos_eq (/ k)) by lra.
    apply Rmult_lt_reg_r with k; [exact Hk|]. rewrite Rmult_assoc, Rinv_l by lra. lra.
Qed.

Theorem gaussian_integral_from_unit (p : R) : 0 < p ->
  gint (fun x => exp (- x ^ 2)) (sqrt PI) ->
  gint (fun x => exp (- p * x ^ 2)) (sqrt (PI / p)).
Proof.
  intros Hp H1.
  assert (Hs : 0 < sqrt p) by now apply sqrt_lt_R0.
  apply (gint_ext (fun x => exp (- (sqrt p * x) ^ 2)) _ (sqrt PI / sqrt p)).
  - intro x. f_equal. rewrite Rpow_mult_distr. cbn [pow]. rewrite Rmult_1_r, sqrt_sqrt by lra. ring.
  - rewrite sqrt_div_alt by exact Hp. reflexivity.
  - exact (gint_scale (fun x => exp (- x ^ 2)) (sqrt PI) (sqrt p) Hs H1).
Qed.

(* (B1), final form; the hypothesis is the one real-analysis fact left outside Coq *)
Theorem bridge_B1 (p P : R) : 0 < p ->
  gint (fun x => exp (- x ^ 2)) (sqrt PI) ->
  forall f : list R,
    gint (fun x => peval f (x - P) * exp (- p * (x - P) ^ 2)) (sqrt (PI / p) * E RKd (vR p) f)
    /\ Gint (fun x => peval f (x - P) * exp (- p * (x - P) ^ 2)) / sqrt (PI / p) = E RKd (vR p) f.
Proof.
  intros Hp H1. apply bridge_B1_modulo_gaussian_integral; [exact Hp|].
  now apply gaussian_integral_from_unit.
Qed.

(* the hypotheses of the conditional theorems are satisfiable *)
Example gauss_moments_hypothesis_satisfiable :
  exists p J0, 0 < p /\ gint (fun x => exp (- p * x ^ 2)) J0.
Proof. exists 1. destruct (gaussian_integral_exists 1 Rlt_0_1) as [J0 H]. exists J0. split; [lra|exact H]. Qed.

Example gauss_moments_values_hypothesis_satisfiable :
  exists p (J : nat -> R), 0 < p /\ forall n, gint (gw p n) (J n).
Proof.
  exists 1. destruct (gaussian_integral_exists 1 Rlt_0_1) as [J0 H].
  exists (fun n => J0 * momR 1 n). split; [lra|]. apply gauss_moments; [lra | exact H].
Qed.

(* a concrete instance: int x^2 e^{-p x^2} / int e^{-p x^2} = 1/(2p), int x^4 ... = 3/(4 p^2) *)
Example second_moment p : 0 < p -> Gint (gw p 2) / J0R p = / (2 * p).
Proof.
  intro Hp. rewrite (Gint_correct _ _ (gauss_moments p _ Hp (J0R_correct p Hp) 2)).
  rewrite momR_SS, momR_0. unfold vR. cbn [INR]. field. split; [lra|]. apply Rgt_not_eq. now apply J0R_pos.
Qed.
