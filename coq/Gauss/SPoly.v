(* Gauss/SPoly.v — the vertical (Obara–Saika) recursion with auxiliary index m,
   over any commutative ring, for ANY sequence beta (no property of the Boys
   function is used).

   With s = t^2 the Coulomb integrand is, for each s, a Gaussian moment with
   variance v (1 - s) and centre PA - s PC, both polynomial in s (DESIGN.md 2.4).
   [Vf a m] is the function the code's recursion defines along one axis,
   [Pc a] a polynomial in s attached to the angular index a:
     V_is_Phi : Vf a m = Phi_m (Pc a)   where Phi_m (s^k) = beta (m + k)
     Pc_eval  : peval (Pc a) s = E_{v(1-s)} ((y + PA - s PC)^a)
   so the array entry is the linear functional Phi_m applied to the exact
   per-s Gaussian moment. *)
From Coq Require Import List Arith Lia Field.
From GB Require Import Base.Field Gauss.Moment1D.
Import ListNotations.

Section SPoly.
Context {F : Type} (K : Fops F) (Kf : is_field K).
Add Field KFsp : Kf.
Local Open Scope F_scope.
Notation "0" := (f0 K) : F_scope.
Notation "1" := (f1 K) : F_scope.
Infix "+" := (fadd K) : F_scope.
Infix "*" := (fmul K) : F_scope.
Infix "-" := (fsub K) : F_scope.
Notation "- x" := (fopp K x) : F_scope.
Notation "# n" := (ofnat K n) (at level 5) : F_scope.
Notation padd := (padd K).
Notation pscale := (pscale K).

Variables (pa pc v : F).          (* PA, PC, 1/(2p) along one axis *)
Variable beta : nat -> F.         (* beta m = (2 pi/p) K_AB F_m(T): ANY sequence *)

Fixpoint V2 (a : nat) : (nat -> F) * (nat -> F) :=   (* (V a, V (a+1)) *)
  match a with
  | O => (beta, fun m => pa * beta m - pc * beta (S m))
  | S a' => let '(Va, Va1) := V2 a' in
            (Va1, fun m => pa * Va1 m - pc * Va1 (S m) + #(S a') * v * (Va m - Va (S m)))
  end.
Definition Vf a := fst (V2 a).
Lemma Vf_0 m : Vf O m = beta m. Proof. reflexivity. Qed.
Lemma Vf_1 m : Vf (S O) m = pa * beta m - pc * beta (S m). Proof. reflexivity. Qed.
Lemma Vf_SS a m : Vf (S (S a)) m =
  pa * Vf (S a) m - pc * Vf (S a) (S m) + #(S a) * v * (Vf a m - Vf a (S m)).
Proof. unfold Vf. cbn [V2]. destruct (V2 a) as [Va Va1] eqn:E. cbn [fst]. reflexivity. Qed.

Fixpoint peval (f : list F) (s : F) : F := match f with [] => 0 | c :: f' => c + s * peval f' s end.
Fixpoint Phi (m : nat) (f : list F) : F :=
  match f with [] => 0 | c :: f' => c * beta m + Phi (S m) f' end.
Definition psub (f g : list F) := padd f (pscale (fopp K (f1 K)) g).

Lemma peval_padd f g s : peval (padd f g) s = peval f s + peval g s.
Proof. revert g; induction f as [|a f IH]; intros g; cbn [Moment1D.padd peval]; [ring|].
  destruct g as [|b g]; cbn [peval]; [ring|]. rewrite IH. ring. Qed.
Lemma peval_pscale c f s : peval (pscale c f) s = c * peval f s.
Proof. induction f as [|a f IH]; cbn [Moment1D.pscale map peval]; [ring|].
  fold (pscale c f). rewrite IH. ring. Qed.
Lemma Phi_padd m f g : Phi m (padd f g) = Phi m f + Phi m g.
Proof. revert m g; induction f as [|a f IH]; intros m g; cbn [Moment1D.padd Phi]; [ring|].
  destruct g as [|b g]; cbn [Phi]; [ring|]. rewrite IH. ring. Qed.
Lemma Phi_pscale m c f : Phi m (pscale c f) = c * Phi m f.
Proof. revert m; induction f as [|a f IH]; intros m; cbn [Moment1D.pscale map Phi]; [ring|].
  fold (pscale c f). rewrite IH. ring. Qed.
Lemma Phi_shift m f : Phi m (0 :: f) = Phi (S m) f. Proof. cbn [Phi]. ring. Qed.
Lemma peval_shift f s : peval (0 :: f) s = s * peval f s. Proof. cbn [peval]. ring. Qed.

Fixpoint Pc2 (a : nat) : list F * list F :=
  match a with
  | O => ([1], [pa; - pc])
  | S a' => let '(Pa, Pa1) := Pc2 a' in
     (Pa1, padd (psub (pscale pa Pa1) (pscale pc (0 :: Pa1)))
                (pscale (#(S a') * v) (psub Pa (0 :: Pa))))
  end.
Definition Pc a := fst (Pc2 a).
Lemma Pc_SS a : Pc (S (S a)) = padd (psub (pscale pa (Pc (S a))) (pscale pc (0 :: Pc (S a))))
                                   (pscale (#(S a) * v) (psub (Pc a) (0 :: Pc a))).
Proof. unfold Pc. cbn [Pc2]. destruct (Pc2 a) as [Pa Pa1]. reflexivity. Qed.

(* the array entry is Phi_m of that polynomial, for every m and every beta *)
Theorem V_is_Phi : forall a m, Vf a m = Phi m (Pc a) /\ Vf (S a) m = Phi m (Pc (S a)).
Proof. induction a as [|a IH]; intros m.
  - split; [rewrite Vf_0 | rewrite Vf_1]; unfold Pc; cbn [Pc2 fst Phi]; ring.
  - split; [apply IH|]. rewrite Vf_SS, Pc_SS.
    unfold psub. rewrite !Phi_padd, !Phi_pscale, !Phi_padd, !Phi_pscale, !Phi_shift.
    destruct (IH m) as [H0 H1]. destruct (IH (S m)) as [H0' H1'].
    rewrite H0, H1, H0', H1'. ring.
Qed.

(* its value at every s is the Gaussian moment with variance v(1-s), centre pa - s pc *)
Definition Gs (s : F) (a : nat) : F := S3 K (v * (1 - s)) (pa - s * pc) 0 0 0%nat 0%nat a 0%nat.

Lemma Gs_0 s : Gs s O = 1.
Proof. unfold Gs. apply (S3_000 K Kf). Qed.
Lemma Gs_S s a : Gs s (S a) = (pa - s * pc) * Gs s a
   + v * (1 - s) * match a with O => 0 | S a' => #a * Gs s a' end.
Proof. unfold Gs. rewrite (OS3_a K Kf). unfold lower, dn. destruct a; ring. Qed.

Theorem Pc_eval : forall a s, peval (Pc a) s = Gs s a /\ peval (Pc (S a)) s = Gs s (S a).
Proof. induction a as [|a IH]; intros s.
  - split; [rewrite Gs_0 | rewrite Gs_S, Gs_0]; unfold Pc; cbn [Pc2 fst peval]; ring.
  - split; [apply IH|]. rewrite Pc_SS. unfold psub.
    rewrite !peval_padd, !peval_pscale, !peval_padd, !peval_pscale, !peval_shift.
    destruct (IH s) as [H0 H1]. rewrite H0, H1.
    rewrite (Gs_S s (S a)). ring.
Qed.

End SPoly.

(* Vf depends on beta only through beta m .. beta (m + a): entries of the NumPy array with
   m + a <= L never depend on the (zero-filled, meaningless) row m = L+1 *)
Section Locality.
Context {F : Type} (K : Fops F).
Variables (pa pc v : F).
Lemma Vf_local (b1 b2 : nat -> F) a : forall m,
  (forall k, k <= S a -> b1 (m + k)%nat = b2 (m + k)%nat) ->
  Vf K pa pc v b1 a m = Vf K pa pc v b2 a m /\
  ((forall k, k <= S a -> b1 (m + k)%nat = b2 (m + k)%nat) ->
   Vf K pa pc v b1 (S a) m = Vf K pa pc v b2 (S a) m).
Proof.
  induction a as [|a IH]; intros m H.
  - split.
    + rewrite !Vf_0. specialize (H 0%nat ltac:(lia)). now rewrite Nat.add_0_r in H.
    + intros _. rewrite !Vf_1.
      pose proof (H 0%nat ltac:(lia)) as H0. pose proof (H 1%nat ltac:(lia)) as H1.
      rewrite Nat.add_0_r in H0. rewrite Nat.add_1_r in H1. now rewrite H0, H1.
  - assert (Hm : forall k, k <= S a -> b1 (m + k)%nat = b2 (m + k)%nat) by (intros; apply H; lia).
    destruct (IH m Hm) as [E0 E1]. specialize (E1 Hm).
    split; [exact E1|]. intros H'. rewrite !Vf_SS.
    assert (HSm : forall k, k <= S a -> b1 (S m + k)%nat = b2 (S m + k)%nat).
    { intros k Hk. replace (S m + k)%nat with (m + S k)%nat by lia. apply H'. lia. }
    destruct (IH (S m) HSm) as [F0 F1]. specialize (F1 HSm).
    now rewrite E0, E1, F0, F1.
Qed.
End Locality.
