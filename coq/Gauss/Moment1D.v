(* Gauss/Moment1D.v — the one-dimensional Gaussian moment functional and the
   Obara–Saika recurrences, over any commutative ring (here: any [Fops] with
   a field theory).

   y = x - P.  Polynomials in y are coefficient lists (low degree first).
     m_0 = 1, m_1 = 0, m_{n+2} = (n+1) v m_n            (v = 1/(2p))
     Eaux n f = sum_k f_k m_{n+k}        E f = Eaux 0 f
   E f is the normalised Gaussian integral of f(x-P) exp(-p (x-P)^2)
   (analytic bridge B1 of DESIGN.md 2.6); everything below is algebra.

   S3 n k i j = Eaux n ((y+c)^k (y+a)^i (y+b)^j): three linear factors are what
   the multipole-moment code needs (a = P-A, b = P-B, c = P-C); k = 0 gives
   the overlap case. *)
From Coq Require Import List Arith Lia Field.
From GB Require Import Base.Field.
Import ListNotations.


Section Moment1D.
Context {F : Type} (K : Fops F) (Kf : is_field K).
Add Field KF : Kf.
Local Open Scope F_scope.
Notation "0" := (f0 K) : F_scope.
Notation "1" := (f1 K) : F_scope.
Infix "+" := (fadd K) : F_scope.
Infix "*" := (fmul K) : F_scope.
Infix "-" := (fsub K) : F_scope.
Notation "- x" := (fopp K x) : F_scope.
Notation "# n" := (ofnat K n) (at level 5) : F_scope.

Variable v : F.

Fixpoint mom2 (n : nat) : F * F :=   (* (m_n, m_{n+1}) *)
  match n with
  | O => (1, 0)
  | S k => let '(a, b) := mom2 k in (b, #(S k) * v * a)
  end.
Definition mom n := fst (mom2 n).
Lemma mom_0 : mom 0 = 1. Proof. reflexivity. Qed.
Lemma mom_1 : mom 1 = 0. Proof. reflexivity. Qed.
Lemma mom_SS n : mom (S (S n)) = #(S n) * v * mom n.
Proof. unfold mom. cbn [mom2]. destruct (mom2 n) as [x y]. reflexivity. Qed.

Definition poly := list F.

Fixpoint Eaux (n : nat) (f : poly) : F :=
  match f with [] => 0 | c :: f' => c * mom n + Eaux (S n) f' end.
Definition E (f : poly) := Eaux 0%nat f.

Fixpoint padd (f g : poly) : poly :=
  match f, g with
  | [], _ => g | _, [] => f
  | a :: f', b :: g' => (a + b) :: padd f' g'
  end.
Definition pscale (c : F) (f : poly) : poly := map (fun x => c * x) f.
Definition pshift (f : poly) : poly := 0 :: f.     (* y * f *)
Definition plin (c : F) (f : poly) : poly := padd (pscale c f) (pshift f).  (* (y + c) f *)

Fixpoint pderiv_aux (k : nat) (f : poly) : poly :=
  match f with [] => [] | c :: f' => (#k * c) :: pderiv_aux (S k) f' end.
Definition pderiv (f : poly) : poly := match f with [] => [] | _ :: f' => pderiv_aux 1 f' end.

Lemma Eaux_padd n f g : Eaux n (padd f g) = Eaux n f + Eaux n g.
Proof. revert n g; induction f as [|a f IH]; intros n g; cbn [padd Eaux]; [ring|].
  destruct g as [|b g]; cbn [padd Eaux]; [ring|]. rewrite IH. ring. Qed.
Lemma Eaux_pscale n c f : Eaux n (pscale c f) = c * Eaux n f.
Proof. revert n; induction f as [|a f IH]; intros n; cbn [pscale map Eaux]; [ring|].
  fold (pscale c f). rewrite IH. ring. Qed.
Lemma Eaux_pshift n f : Eaux n (pshift f) = Eaux (S n) f.
Proof. cbn [pshift Eaux]. ring. Qed.

Lemma stein_gen k f : Eaux (S (S k)) f = v * Eaux k (pderiv_aux (S k) f).
Proof. revert k; induction f as [|c f IH]; intros k; cbn [Eaux pderiv_aux]; [ring|].
  rewrite IH. rewrite mom_SS. ring. Qed.

(* Stein's lemma: E (y f) = v E (f') *)
Lemma stein f : E (pshift f) = v * E (pderiv f).
Proof. unfold E, pshift, pderiv. cbn [Eaux].
  destruct f as [|c f]; cbn [Eaux pderiv_aux]; [ring|].
  rewrite stein_gen. rewrite mom_1. ring. Qed.

Lemma Eaux_plin n c f : Eaux n (plin c f) = c * Eaux n f + Eaux (S n) f.
Proof. unfold plin. rewrite Eaux_padd, Eaux_pscale, Eaux_pshift. reflexivity. Qed.

Lemma pderiv_aux_padd k f g : pderiv_aux k (padd f g) = padd (pderiv_aux k f) (pderiv_aux k g).
Proof. revert k g; induction f as [|a f IH]; intros k g; cbn [padd pderiv_aux]; [reflexivity|].
  destruct g as [|b g]; cbn [padd pderiv_aux]; [reflexivity|]. rewrite IH. f_equal. ring. Qed.
Lemma pderiv_aux_pscale k c f : pderiv_aux k (pscale c f) = pscale c (pderiv_aux k f).
Proof. revert k; induction f as [|a f IH]; intros k; cbn [pscale map pderiv_aux]; [reflexivity|].
  fold (pscale c f). fold (pscale c (pderiv_aux (S k) f)). rewrite IH. f_equal. ring. Qed.

Lemma Eaux_pderiv_aux_shift n k f :
  Eaux n (pderiv_aux (S k) f) = Eaux n f + Eaux n (pderiv_aux k f).
Proof. revert n k; induction f as [|a f IH]; intros n k; cbn [Eaux pderiv_aux]; [ring|].
  rewrite (IH (S n) (S k)). cbn [ofnat]. ring. Qed.

Lemma Eaux_pderiv_pshift n f :
  Eaux n (pderiv (pshift f)) = Eaux n f + Eaux (S n) (pderiv f).
Proof. unfold pderiv, pshift. destruct f as [|a f]; cbn [Eaux pderiv_aux]; [ring|].
  rewrite Eaux_pderiv_aux_shift. cbn [ofnat]. ring. Qed.

Fixpoint plin_pow (c : F) (e : nat) (f : poly) : poly :=
  match e with O => f | S e' => plin c (plin_pow c e' f) end.

Lemma padd_nil_r f : padd f [] = f. Proof. destruct f; reflexivity. Qed.
Lemma pderiv_padd f g : pderiv (padd f g) = padd (pderiv f) (pderiv g).
Proof. destruct f as [|a f]; [reflexivity|]. destruct g as [|b g]; cbn [padd pderiv].
  - rewrite padd_nil_r. reflexivity.
  - apply pderiv_aux_padd. Qed.
Lemma pderiv_pscale c f : pderiv (pscale c f) = pscale c (pderiv f).
Proof. destruct f as [|a f]; [reflexivity|]. cbn [pscale map pderiv]. apply pderiv_aux_pscale. Qed.

(* Leibniz rule for a linear factor, seen through every E_n *)
Lemma Eaux_pderiv_plin n c f :
  Eaux n (pderiv (plin c f)) = Eaux n f + (c * Eaux n (pderiv f) + Eaux (S n) (pderiv f)).
Proof. unfold plin. rewrite pderiv_padd, Eaux_padd, pderiv_pscale, Eaux_pscale, Eaux_pderiv_pshift. ring. Qed.

(* ---- three linear factors ---- *)
Variables a b c : F.
Definition g3 (k i j : nat) : poly := plin_pow c k (plin_pow a i (plin_pow b j [1])).
Definition S3 (n k i j : nat) : F := Eaux n (g3 k i j).
Definition R3 (n k i j : nat) : F := Eaux n (pderiv (g3 k i j)).

(* e * S(.., e-1, ..) with the boundary convention 0 * (anything) = 0 *)
Definition dn (e : nat) (f : nat -> F) : F :=
  match e with O => 0 | S e' => #e * f e' end.

Definition lower (n k i j : nat) : F :=
  dn k (fun k' => S3 n k' i j) + dn i (fun i' => S3 n k i' j) + dn j (fun j' => S3 n k i j').

Lemma S3_Sk n k i j : S3 n (S k) i j = c * S3 n k i j + S3 (S n) k i j.
Proof. unfold S3, g3. cbn [plin_pow]. apply Eaux_plin. Qed.

Lemma S3_Si n k i j : S3 n k (S i) j = a * S3 n k i j + S3 (S n) k i j.
Proof. revert n; induction k as [|k IH]; intros n.
  - unfold S3, g3. cbn [plin_pow]. apply Eaux_plin.
  - rewrite !S3_Sk, (IH n), (IH (S n)). ring. Qed.

Lemma S3_Sj n k i j : S3 n k i (S j) = b * S3 n k i j + S3 (S n) k i j.
Proof. revert n; induction k as [|k IHk]; intros n.
  - revert n; induction i as [|i IHi]; intros n.
    + unfold S3, g3. cbn [plin_pow]. apply Eaux_plin.
    + rewrite !S3_Si, (IHi n), (IHi (S n)). ring.
  - rewrite !S3_Sk, (IHk n), (IHk (S n)). ring. Qed.

Lemma R3_00j n j : R3 n 0 0 j = lower n 0 0 j.
Proof. revert n; induction j as [|j IH]; intros n.
  - unfold R3, lower, g3, dn. cbn. ring.
  - unfold R3, g3 in *. cbn [plin_pow] in *. rewrite Eaux_pderiv_plin.
    rewrite (IH n), (IH (S n)). unfold lower, dn, S3, g3. cbn [plin_pow].
    destruct j as [|j'].
    + cbn [ofnat]. ring.
    + cbn [plin_pow]. rewrite !Eaux_plin. cbn [ofnat]. ring.
Qed.

Lemma R3_0ij n i j : R3 n 0 i j = lower n 0 i j.
Proof. revert n; induction i as [|i IH]; intros n.
  - apply R3_00j.
  - unfold R3, g3. cbn [plin_pow]. rewrite Eaux_pderiv_plin.
    change (plin_pow a i (plin_pow b j [1])) with (g3 0 i j).
    fold (R3 n 0 i j) (R3 (S n) 0 i j) (S3 n 0 i j).
    rewrite (IH n), (IH (S n)). unfold lower, dn.
    destruct i as [|i']; destruct j as [|j']; rewrite ?S3_Si; cbn [ofnat]; ring.
Qed.

Lemma R3_kij n k i j : R3 n k i j = lower n k i j.
Proof. revert n; induction k as [|k IH]; intros n.
  - apply R3_0ij.
  - unfold R3, g3. cbn [plin_pow]. rewrite Eaux_pderiv_plin.
    fold (g3 k i j). fold (R3 n k i j) (R3 (S n) k i j) (S3 n k i j).
    rewrite (IH n), (IH (S n)). unfold lower, dn.
    destruct k as [|k']; destruct i as [|i']; destruct j as [|j'];
      rewrite ?S3_Sk; cbn [ofnat]; ring.
Qed.

(* Obara–Saika: raising any of the three exponents *)
Theorem OS3_c k i j : S3 0 (S k) i j = c * S3 0 k i j + v * lower 0 k i j.
Proof. rewrite S3_Sk, <- R3_kij. unfold S3, R3. rewrite <- Eaux_pshift. f_equal. apply stein. Qed.
Theorem OS3_a k i j : S3 0 k (S i) j = a * S3 0 k i j + v * lower 0 k i j.
Proof. rewrite S3_Si, <- R3_kij. unfold S3, R3. rewrite <- Eaux_pshift. f_equal. apply stein. Qed.
Theorem OS3_b k i j : S3 0 k i (S j) = b * S3 0 k i j + v * lower 0 k i j.
Proof. rewrite S3_Sj, <- R3_kij. unfold S3, R3. rewrite <- Eaux_pshift. f_equal. apply stein. Qed.

Lemma S3_000 : S3 0 0 0 0 = 1.
Proof. unfold S3, g3. cbn. ring. Qed.

(* the integral seen by the code: T k i j := S3 0 k i j *)
Definition T3 (k i j : nat) : F := S3 0 k i j.

(* moment order 0 does not see the moment centre *)
Lemma S3_0_indep_c n i j : S3 n 0 i j = Eaux n (plin_pow a i (plin_pow b j [1])).
Proof. reflexivity. Qed.

End Moment1D.

(* exchanging the roles of the two functions (a <-> b, i <-> j) leaves every moment unchanged *)
Section Swap.
Context {F : Type} (K : Fops F) (Kf : is_field K).
Add Field KFs : Kf.
Variables v a b c : F.
Lemma S3_swap n k i j : S3 K v a b c n k i j = S3 K v b a c n k j i.
Proof.
  revert n j. induction i as [|i IHi]; intros n j.
  - revert n. induction j as [|j IHj]; intros n; [reflexivity|].
    rewrite (S3_Sj K Kf), (S3_Si K Kf), (IHj n), (IHj (S n)). reflexivity.
  - rewrite (S3_Si K Kf), (S3_Sj K Kf), (IHi n j), (IHi (S n) j). reflexivity.
Qed.
Lemma T3_swap k i j : T3 K v a b c k i j = T3 K v b a c k j i.
Proof. apply S3_swap. Qed.
End Swap.
