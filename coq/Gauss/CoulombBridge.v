(* Gauss/CoulombBridge.v — analytic bridge (B2) of DESIGN.md 2.4/2.6 reduced to the exchange of integrals.

   The header of Gauss/BoysBridge.v leaves ONE identity trusted for the Coulomb (point-charge /
   nuclear-attraction) integrals:
        int_{R^3} phi_a(r) phi_b(r) / |r - C| d^3r  =  prim_val RKB ...      (= the t-integral over [0,1])
   and splits it into (i) the Laplace/Gaussian representation of 1/r, (ii) the exchange of the
   u-integral with the integral over R^3, (iii) Gaussian integration at fixed u, (iv) the
   substitution t^2 = u^2/(p+u^2).  THIS FILE PROVES (i), (iii), (iv) AND THEIR COMPOSITION; only (ii) is
   left, as an explicit hypothesis [exchange_holds].

   Objects.  [hint g l] : the improper Riemann integral of g over [0, +oo) is l
                          (is_RInt_gen g (at_point 0) (Rbar_locally p_infty) l; spelled out by hint_spelled_out);
             [HInt g]   : its value (RInt_gen);   [gint], [gint3] : Gauss/BridgeR.v, Gauss/Bridge3D.v.
             dist2 x y z = |r - C|^2;   cprim = Cartesian Gaussian primitive of Gauss/Bridge3D.v;
             coulomb_kernel u x y z = (2/sqrt PI) phi_a(r) phi_b(r) exp(-u^2 |r-C|^2)      (the (u, r)-integrand)
             coulomb_integrand x y z = phi_a(r) phi_b(r) / sqrt(|r-C|^2)                   (the Coulomb integrand)

   Proved (all exponents > 0, all centres, all Cartesian powers, no other hypothesis):
     (i)   inv_r_gaussian_representation   r > 0 -> hint (fun u => exp(-u^2 r^2)) (sqrt PI / (2 r))
           inv_r_laplace                   r > 0 -> / r = 2/sqrt PI * HInt (fun u => exp(-u^2 r^2))
           coulomb_integrand_is_u_integral r <> C -> hint (fun u => coulomb_kernel u r) (coulomb_integrand r)
           (tool: gint_even_half — the half-line integral of an even function is half of [gint])
     (iii) three_gauss_1d                  int (x-A)^i (x-B)^j e^{-al(x-A)^2} e^{-be(x-B)^2} e^{-w(x-C)^2} dx
                                           = e^{-mu(A-B)^2} e^{-(p w/(p+w))(P-C)^2} sqrt(PI/(p+w)) S3(1/(2(p+w)); W-A, W-B; 0,0,i,j),
                                           W = (p P + w C)/(p+w), every w >= 0
           three_gauss_1d_model            the same in the variables of the model: s = w/(p+w), variance v(1-s),
                                           displacements PA - s PC, PB - s PC, exponent p s (P-C)^2
           gaussian_at_fixed_u_raw         gint3 (phi_a phi_b e^{-u^2|r-C|^2}) = (PI/q)^{3/2} e^{-mu|AB|^2} e^{-(p u^2/q)|PC|^2}
                                           prod_axes S3(1/(2q); W-A, W-B; 0,0,a_i,b_i),  q = p+u^2, W = (p P + u^2 C)/q
           gaussian_at_fixed_u             gint3 (coulomb_kernel u) (Ju u),
                                           Ju u = (2/sqrt PI) (PI/q) sqrt(PI/q) e^{-mu|AB|^2} e^{-p s|PC|^2}
                                                  prod_axes S3(v(1-s); PA - s PC, PB - s PC; 0,0,a_i,b_i),  q = p+u^2, s = u^2/q
     (iv)  hint_subst_tau                  for every continuous g:  int_0^oo g(u/sqrt(p+u^2)) p (p+u^2)^{-3/2} du = int_0^1 g(t) dt
                                           (is_RInt_comp on [0,U], tau U -> 1, continuity of the primitive)
           Ju_integral                     hint Ju (prim_val RKB ...)          [with BoysBridge.prim_val_is_t_integral]
     composition
           coulomb_u_then_r_integral_is_prim_val
                                           int_0^oo [ iterated integral over R^3 of coulomb_kernel u ] du = prim_val RKB ...
                                           — everything of (B2) except the order of integration, no hypothesis
           coulomb_prim_is_prim_val_modulo_exchange
                                           exchange_holds (coulomb_kernel) (coulomb_integrand)
                                           -> gint3 coulomb_integrand (prim_val RKB ...)
           coulomb_prim_is_prim_val_modulo_exchange_HInt
                                           the same with the integrand WRITTEN as the u-integral, HInt (fun u => coulomb_kernel u r)
                                           (equal to coulomb_integrand off the single point r = C: coulomb_HInt_integrand_eq)
           exchange_equivalent_to_conclusion
                                           the hypothesis is exactly as strong as the conclusion (nothing beyond (ii) is assumed)

   WHAT REMAINS TRUSTED FOR (B2) AFTER THIS FILE — only (ii), for this explicit continuous kernel:
        exchange_holds K F  :=  forall J L, (forall u, 0 <= u -> gint3 (K u) (J u)) -> hint J L -> gint3 F L
     with K = coulomb_kernel, F = coulomb_integrand, where F r = int_0^oo K u r du for every r <> C (proved).  I.e.
     "iterated integral over R^3 of the u-integral = u-integral of the iterated integral over R^3" (Fubini-Tonelli
     for a non-negative-dominated integrand: |K| <= (2/sqrt PI) |phi_a phi_b| e^{-u^2 |r-C|^2}) together with the
     irrelevance of the single point r = C (where [coulomb_integrand] has Coq's value x/0 = 0).  The premises of
     [exchange_holds] are PROVED for J = Ju and L = prim_val (coulomb_u_then_r_integral_is_prim_val), so the
     hypothesis is used at a non-vacuous instance; its satisfiability for a concrete Gaussian pair IS the trusted
     statement (it is equivalent to the conclusion), so no Example can discharge it here — see
     [exchange_holds_satisfiable_abstract] for the predicate itself and [exchange_premises_satisfied] for the premises.
   Assumptions: the classical real numbers of the standard library only. *)
From Coq Require Import Reals Lra Lia List.
From Coquelicot Require Import Coquelicot.
From GB Require Import Base.Field Base.FNum Gauss.Moment1D Gauss.SPoly Gauss.Bridge Gauss.DerivBridge
  Gauss.BridgeR Gauss.GaussInt Model.Shell Proofs.CoreBlockP Proofs.ScreeningP Proofs.OneElecP
  Gauss.Bridge3D Gauss.BoysBridge.
Import ListNotations.
Open Scope R_scope.

(* ------------------------------------------------------------------ *)
(* 1. improper integrals over the half line [0, +oo)                   *)
(* ------------------------------------------------------------------ *)
Definition hint (g : R -> R) (l : R) : Prop :=
  is_RInt_gen g (at_point 0) (Rbar_locally p_infty) l.
Definition HInt (g : R -> R) : R := RInt_gen g (at_point 0) (Rbar_locally p_infty).

(* what [hint] says: for every eps there is M such that every proper integral over [0, b], M < b,
   exists and is within eps of l *)
Lemma hint_spelled_out (g : R -> R) (l : R) :
  hint g l <->
  (forall eps : posreal, exists M : R, forall b : R, M < b ->
     exists y : R, is_RInt g 0 b y /\ Rabs (y - l) < eps).
Proof.
  unfold hint, is_RInt_gen, filterlimi, filter_le, filtermapi. split.
  - intros H eps.
    destruct (H (fun y => Rabs (y - l) < eps)) as [Q1 Q2 H1 [M2 H2] HQ].
    { exists eps. intros y Hy. exact Hy. }
    exists M2. intros b Hb. apply (HQ 0 b); [exact H1 | now apply H2].
  - intros H P [eps HP]. destruct (H eps) as [M HM].
    apply (Filter_prod _ _ _ (fun a => a = 0) (fun b => M < b)).
    + reflexivity.
    + exists M. intros x Hx. exact Hx.
    + intros a b Ha Hb. cbn [fst snd]. subst a. destruct (HM b Hb) as [y [Hy Hd]]. exists y. split; [exact Hy|].
      apply HP. exact Hd.
Qed.

Lemma hint_ext (f g : R -> R) (l l' : R) :
  (forall x, f x = g x) -> l = l' -> hint f l -> hint g l'.
Proof.
  intros Hfg <- H. unfold hint in *.
  apply (is_RInt_gen_ext f g); [|exact H]. apply filter_forall. intros ab x _. apply Hfg.
Qed.

Lemma hint_scal (k : R) (f : R -> R) (l : R) : hint f l -> hint (fun x => k * f x) (k * l).
Proof. intro H. exact (is_RInt_gen_scal f k l H). Qed.

Lemma hint_unique (f : R -> R) (l l' : R) : hint f l -> hint f l' -> l = l'.
Proof.
  intros H H'. unfold hint in *.
  rewrite <- (is_RInt_gen_unique f l H). exact (is_RInt_gen_unique f l' H').
Qed.

Lemma HInt_correct g l : hint g l -> HInt g = l.
Proof. intro H. exact (is_RInt_gen_unique g l H). Qed.

(* the half-line integral of an even function is half of the integral over the line *)
Lemma even_RInt_neg (g : R -> R) (b y : R) :
  (forall x, g (- x) = g x) -> is_RInt g 0 b y -> is_RInt g (- b) 0 y.
Proof.
  intros Hev H.
  apply (is_RInt_ext (fun t => opp (opp (g (- t))))).
  - intros t _. rewrite opp_opp. apply Hev.
  - replace y with (opp (opp y)) by apply opp_opp.
    apply (is_RInt_opp (fun t => opp (g (- t))) (- b) 0 (opp y)).
    apply (is_RInt_comp_opp g (- b) 0 (opp y)).
    rewrite Ropp_involutive, Ropp_0.
    apply (is_RInt_swap g b 0 y). exact H.
Qed.

Theorem gint_even_half (g : R -> R) (l : R) :
  (forall x, g (- x) = g x) -> gint g l -> hint g (l / 2).
Proof.
  intros Hev H. rewrite gint_spelled_out in H. rewrite hint_spelled_out. intro eps.
  destruct (H eps) as [M HM]. exists (Rmax M 0). intros b Hb.
  assert (HbM : M < b) by (pose proof (Rmax_l M 0); lra).
  assert (Hb0 : 0 < b) by (pose proof (Rmax_r M 0); lra).
  destruct (HM (- b) b) as [y [Hy Hd]]; [lra | lra |].
  assert (Hex : ex_RInt g 0 b).
  { apply (ex_RInt_Chasles_2 g (- b) 0 b); [lra | exists y; exact Hy]. }
  destruct Hex as [y2 Hy2].
  pose proof (even_RInt_neg g b y2 Hev Hy2) as Hneg.
  pose proof (is_RInt_Chasles g (- b) 0 b y2 y2 Hneg Hy2) as Hc.
  pose proof (is_RInt_unique _ _ _ _ Hc) as E1. pose proof (is_RInt_unique _ _ _ _ Hy) as E2.
  assert (E : y = y2 + y2) by (rewrite <- E2, E1; reflexivity).
  exists y2. split; [exact Hy2|].
  replace (y2 - l / 2) with ((y - l) * / 2) by (rewrite E; field).
  rewrite Rabs_mult, (Rabs_pos_eq (/ 2)) by lra.
  pose proof (Rabs_pos (y - l)). lra.
Qed.

(* ------------------------------------------------------------------ *)
(* 2. (i) the Gaussian (Laplace) representation of 1/r                 *)
(* ------------------------------------------------------------------ *)
Lemma half_gaussian (d2 : R) : 0 < d2 ->
  hint (fun u => exp (- u ^ 2 * d2)) (sqrt PI / (2 * sqrt d2)).
Proof.
  intro Hd. assert (Hs : 0 < sqrt d2) by now apply sqrt_lt_R0.
  apply (hint_ext (fun u => exp (- d2 * u ^ 2)) _ (sqrt (PI / d2) / 2)).
  - intro u. f_equal. ring.
  - rewrite sqrt_div_alt by exact Hd. field. lra.
  - apply gint_even_half; [|now apply gaussian_integral].
    intro x. f_equal. ring.
Qed.

Theorem inv_r_gaussian_representation (r : R) : 0 < r ->
  hint (fun u => exp (- u ^ 2 * r ^ 2)) (sqrt PI / (2 * r)).
Proof.
  intro Hr. assert (H2 : 0 < r ^ 2) by (apply pow_lt; exact Hr).
  pose proof (half_gaussian (r ^ 2) H2) as H.
  replace (sqrt (r ^ 2)) with r in H; [exact H|].
  symmetry. replace (r ^ 2) with (Rsqr r) by (unfold Rsqr; ring). apply sqrt_Rsqr. lra.
Qed.

Lemma sqrt_PI_pos : 0 < sqrt PI.
Proof. apply sqrt_lt_R0. apply PI_RGT_0. Qed.

Theorem inv_r_laplace (r : R) : 0 < r ->
  / r = 2 / sqrt PI * HInt (fun u => exp (- u ^ 2 * r ^ 2)).
Proof.
  intro Hr. rewrite (HInt_correct _ _ (inv_r_gaussian_representation r Hr)).
  pose proof sqrt_PI_pos. field. split; lra.
Qed.

Theorem inv_sqrt_laplace (d2 : R) : 0 < d2 ->
  hint (fun u => 2 / sqrt PI * exp (- u ^ 2 * d2)) (/ sqrt d2).
Proof.
  intro Hd. assert (Hs : 0 < sqrt d2) by now apply sqrt_lt_R0. pose proof sqrt_PI_pos.
  apply (hint_ext (fun u => 2 / sqrt PI * exp (- u ^ 2 * d2)) _ (2 / sqrt PI * (sqrt PI / (2 * sqrt d2))));
    [reflexivity | field; split; lra |].
  apply (hint_scal (2 / sqrt PI) (fun u => exp (- u ^ 2 * d2))). now apply half_gaussian.
Qed.

(* ------------------------------------------------------------------ *)
(* 3. (iii) Gaussian integration at fixed u: three Gaussian factors    *)
(* ------------------------------------------------------------------ *)
(* the Gaussian product identity applied twice:
     al (x-A)^2 + be (x-B)^2 + w (x-C)^2 = q (x-W)^2 + mu (A-B)^2 + (p w / q) (P-C)^2 *)
Lemma three_gauss_exponent (al be w A B C x : R) : 0 < al -> 0 < be -> 0 <= w ->
  let p := al + be in let P := (al * A + be * B) / p in let mu := al * be / p in
  let q := p + w in let W := (p * P + w * C) / q in
  al * (x - A) ^ 2 + be * (x - B) ^ 2 + w * (x - C) ^ 2
  = q * (x - W) ^ 2 + mu * (A - B) ^ 2 + p * w / q * (P - C) ^ 2.
Proof.
  intros Ha Hb Hw p P mu q W.
  assert (Hp : al + be <> 0) by lra.
  pose proof (gauss_product_identity RKd RKd_field al be A B x Hp) as H1. cbv zeta in H1.
  cbn [fadd fmul fsub fdiv RKd] in H1.
  assert (Hq : p + w <> 0) by (unfold p; lra).
  pose proof (gauss_product_identity RKd RKd_field p w P C x Hq) as H2. cbv zeta in H2.
  cbn [fadd fmul fsub fdiv RKd] in H2.
  replace (al * (x - A) ^ 2 + be * (x - B) ^ 2)
    with (al * ((x - A) * (x - A)) + be * ((x - B) * (x - B))) by ring.
  rewrite H1. fold p. fold P.
  replace (p * ((x - P) * (x - P)) + al * be / p * ((A - B) * (A - B)) + w * (x - C) ^ 2)
    with (p * ((x - P) * (x - P)) + w * ((x - C) * (x - C)) + al * be / p * ((A - B) * (A - B))) by ring.
  rewrite H2. fold q. fold W. fold mu. ring.
Qed.

Theorem three_gauss_1d (al be w A B C : R) (i j : nat) : 0 < al -> 0 < be -> 0 <= w ->
  let p := al + be in let P := (al * A + be * B) / p in let mu := al * be / p in
  let q := p + w in let W := (p * P + w * C) / q in
  gint (fun x => (x - A) ^ i * (x - B) ^ j
                 * exp (- al * (x - A) ^ 2) * exp (- be * (x - B) ^ 2) * exp (- w * (x - C) ^ 2))
       (exp (- mu * (A - B) ^ 2) * exp (- (p * w / q) * (P - C) ^ 2) * sqrt (PI / q)
        * S3 RKd (vR q) (W - A) (W - B) 0 0 0 i j).
Proof.
  intros Hal Hbe Hw p P mu q W. assert (Hq : 0 < q) by (unfold q, p; lra).
  destruct (bridge_B1_closed q W (g3 RKd (W - A) (W - B) 0 0 i j) Hq) as [H _].
  set (c := exp (- mu * (A - B) ^ 2) * exp (- (p * w / q) * (P - C) ^ 2)).
  apply (gint_ext (fun x => c * (peval (g3 RKd (W - A) (W - B) 0 0 i j) (x - W) * exp (- q * (x - W) ^ 2))) _
                  (c * (sqrt (PI / q) * E RKd (vR q) (g3 RKd (W - A) (W - B) 0 0 i j)))).
  - intro x. rewrite peval_g3.
    replace (x - W + (W - A)) with (x - A) by ring.
    replace (x - W + (W - B)) with (x - B) by ring.
    assert (Hexp : exp (- al * (x - A) ^ 2) * exp (- be * (x - B) ^ 2) * exp (- w * (x - C) ^ 2)
                   = c * exp (- q * (x - W) ^ 2)).
    { unfold c. rewrite <- !exp_plus. f_equal.
      pose proof (three_gauss_exponent al be w A B C x Hal Hbe Hw) as He. cbv zeta in He.
      fold p in He. fold P in He. fold mu in He. fold q in He. fold W in He. lra. }
    transitivity ((x - A) ^ i * (x - B) ^ j
                  * (exp (- al * (x - A) ^ 2) * exp (- be * (x - B) ^ 2) * exp (- w * (x - C) ^ 2))); [|ring].
    rewrite Hexp. cbn [pow]. ring.
  - unfold S3, E, c. ring.
  - exact (gint_scal _ _ _ H).
Qed.

(* the same in the variables of the model (DESIGN.md 2.4): s = w/(p+w) (= t^2 after the substitution),
   variance v (1 - s), displacements PA - s PC and PB - s PC, damping exponent p s (P-C)^2 *)
Lemma model_variables (p w PA PC : R) : 0 < p -> 0 <= w ->
  let q := p + w in let s := w / q in
  vR q = 1 / ((1 + 1) * p) * (1 - s) /\ p * w / q = p * s /\ PI / q = PI / p * (1 - s) /\ 0 <= s < 1.
Proof.
  intros Hp Hw q s. assert (Hq : 0 < q) by (unfold q; lra). unfold vR, s.
  unfold q in *. clear s q. repeat split.
  - field. split; lra.
  - field. lra.
  - field. split; lra.
  - apply Rmult_le_pos; [exact Hw | left; now apply Rinv_0_lt_compat].
  - apply Rmult_lt_reg_r with (p + w); [exact Hq|]. unfold Rdiv. rewrite Rmult_assoc, Rinv_l by lra. lra.
Qed.

(* RKB (honest Boys function in the oracle slot) and RKd agree on the moment functional; [ofnat] is a
   top-level fixpoint taking the record as an argument, so this is an induction, not a conversion *)
Lemma ofnat_RKB n : ofnat RKB n = ofnat RKd n.
Proof. induction n as [|n IH]; [reflexivity|]. cbn [ofnat]. rewrite IH. reflexivity. Qed.
Lemma mom2_RKB v n : mom2 RKB v n = mom2 RKd v n.
Proof.
  induction n as [|n IH]; [reflexivity|]. cbn [mom2]. rewrite IH.
  destruct (mom2 RKd v n) as [a b]. f_equal. rewrite ofnat_RKB. reflexivity.
Qed.
Lemma Eaux_RKB v f : forall n, Eaux RKB v n f = Eaux RKd v n f.
Proof.
  induction f as [|c f IH]; intro n; [reflexivity|]. cbn [Eaux]. rewrite IH. unfold mom.
  rewrite mom2_RKB. reflexivity.
Qed.
Lemma S3_RKB_RKd v a b c n k i j : S3 RKB v a b c n k i j = S3 RKd v a b c n k i j.
Proof. unfold S3. rewrite Eaux_RKB. reflexivity. Qed.

Theorem three_gauss_1d_model (al be w A B C : R) (i j : nat) : 0 < al -> 0 < be -> 0 <= w ->
  let p := al + be in let P := (al * A + be * B) / p in let mu := al * be / p in
  let q := p + w in let s := w / q in let v := 1 / ((1 + 1) * p) in
  gint (fun x => cg1 al A i x * cg1 be B j x * exp (- w * (x - C) ^ 2))
       (exp (- mu * (A - B) ^ 2) * exp (- (p * s) * (P - C) ^ 2) * sqrt (PI / q)
        * S3 RKB (v * (1 - s)) (P - A - s * (P - C)) (P - B - s * (P - C)) 0 0 0 i j).
Proof.
  intros Hal Hbe Hw p P mu q s v. assert (Hp : 0 < p) by (unfold p; lra).
  assert (Hq : 0 < q) by (unfold q; lra).
  pose proof (three_gauss_1d al be w A B C i j Hal Hbe Hw) as H. cbv zeta in H.
  fold p in H. fold P in H. fold mu in H. fold q in H.
  destruct (model_variables p w (P - A) (P - C) Hp Hw) as [E1 [E2 _]]. cbv zeta in E1, E2.
  fold q in E1, E2. fold s in E1, E2. fold v in E1.
  refine (gint_ext _ _ _ _ _ _ H).
  - intro x. unfold cg1. ring.
  - rewrite S3_RKB_RKd, <- E1, <- E2.
    replace ((p * P + w * C) / q - A) with (P - A - s * (P - C)) by (unfold s, q; field; lra).
    replace ((p * P + w * C) / q - B) with (P - B - s * (P - C)) by (unfold s, q; field; lra).
    reflexivity.
Qed.

(* ------------------------------------------------------------------ *)
(* 4. (iii) in three dimensions: the (u, r)-integrand at fixed u       *)
(* ------------------------------------------------------------------ *)
Definition dist2 (Cx Cy Cz x y z : R) : R := (x - Cx) ^ 2 + (y - Cy) ^ 2 + (z - Cz) ^ 2.

(* (2/sqrt PI) phi_a(r) phi_b(r) exp(-u^2 |r-C|^2): its u-integral over [0,oo) is phi_a phi_b / |r-C| (r <> C) *)
Definition coulomb_kernel (Cx Cy Cz Ax Ay Az Bx By Bz al be : R) (ca cb : Shell.comp) (u x y z : R) : R :=
  2 / sqrt PI * (cprim al Ax Ay Az ca x y z * cprim be Bx By Bz cb x y z)
  * exp (- u ^ 2 * dist2 Cx Cy Cz x y z).

(* the Coulomb integrand itself (Coq's x / 0 = 0 at the single point r = C) *)
Definition coulomb_integrand (Cx Cy Cz Ax Ay Az Bx By Bz al be : R) (ca cb : Shell.comp) (x y z : R) : R :=
  cprim al Ax Ay Az ca x y z * cprim be Bx By Bz cb x y z / sqrt (dist2 Cx Cy Cz x y z).

(* the product over the axes of the per-s Gaussian moments: the polynomial in s of DESIGN.md 2.4,
   literally the factor of the integrand of BoysBridge.prim_val_is_t_integral (at s = t^2) *)
Definition Gprod (Cx Cy Cz Ax Ay Az Bx By Bz al be : R) (ca cb : Shell.comp) (s : R) : R :=
  let p := al + be in
  let Px := (al * Ax + be * Bx) / p in let Py := (al * Ay + be * By) / p in
  let Pz := (al * Az + be * Bz) / p in
  let v := 1 / ((1 + 1) * p) in
  S3 RKB (v * (1 - s)) (Px - Ax - s * (Px - Cx)) (Px - Bx - s * (Px - Cx)) 0 0 0
     (fst (fst ca)) (fst (fst cb))
  * S3 RKB (v * (1 - s)) (Py - Ay - s * (Py - Cy)) (Py - By - s * (Py - Cy)) 0 0 0
       (snd (fst ca)) (snd (fst cb))
  * S3 RKB (v * (1 - s)) (Pz - Az - s * (Pz - Cz)) (Pz - Bz - s * (Pz - Cz)) 0 0 0
       (snd ca) (snd cb).

(* the value of the iterated integral over R^3 of the kernel at fixed u *)
Definition Ju (Cx Cy Cz Ax Ay Az Bx By Bz al be : R) (ca cb : Shell.comp) (u : R) : R :=
  let p := al + be in
  let Px := (al * Ax + be * Bx) / p in let Py := (al * Ay + be * By) / p in
  let Pz := (al * Az + be * Bz) / p in
  let mu := al * be / p in
  let ab2 := (Ax - Bx) * (Ax - Bx) + (Ay - By) * (Ay - By) + (Az - Bz) * (Az - Bz) in
  let pc2 := (Px - Cx) * (Px - Cx) + (Py - Cy) * (Py - Cy) + (Pz - Cz) * (Pz - Cz) in
  let q := p + u ^ 2 in let s := u ^ 2 / q in
  2 / sqrt PI * (PI / q * sqrt (PI / q)) * exp (- (mu * ab2)) * exp (- (p * pc2) * s)
  * Gprod Cx Cy Cz Ax Ay Az Bx By Bz al be ca cb s.

Theorem gaussian_at_fixed_u (Cx Cy Cz Ax Ay Az Bx By Bz al be : R) (ca cb : Shell.comp) (u : R) :
  0 < al -> 0 < be ->
  gint3 (coulomb_kernel Cx Cy Cz Ax Ay Az Bx By Bz al be ca cb u)
        (Ju Cx Cy Cz Ax Ay Az Bx By Bz al be ca cb u).
Proof.
  intros Ha Hb. assert (Hw : 0 <= u ^ 2) by apply pow2_ge_0.
  pose proof (three_gauss_1d_model al be (u ^ 2) Ax Bx Cx (cx ca) (cx cb) Ha Hb Hw) as Hx.
  pose proof (three_gauss_1d_model al be (u ^ 2) Ay By Cy (cy ca) (cy cb) Ha Hb Hw) as Hy.
  pose proof (three_gauss_1d_model al be (u ^ 2) Az Bz Cz (cz ca) (cz cb) Ha Hb Hw) as Hz.
  cbv zeta in Hx, Hy, Hz.
  refine (gint3_ext _ _ _ _ _ _ (gint3_scal (2 / sqrt PI) _ _ (gint3_prod _ _ _ _ _ _ Hx Hy Hz))).
  - intros x y z. unfold coulomb_kernel, dist2. rewrite !cprim_split.
    replace (- u ^ 2 * ((x - Cx) ^ 2 + (y - Cy) ^ 2 + (z - Cz) ^ 2))
      with (- u ^ 2 * (x - Cx) ^ 2 + - u ^ 2 * (y - Cy) ^ 2 + - u ^ 2 * (z - Cz) ^ 2) by ring.
    rewrite !exp_plus. ring.
  - unfold Ju, Gprod. cbv zeta. unfold cx, cy, cz.
    set (p := al + be). set (q := p + u ^ 2). set (s := u ^ 2 / q).
    set (Px := (al * Ax + be * Bx) / p). set (Py := (al * Ay + be * By) / p).
    set (Pz := (al * Az + be * Bz) / p). set (mu := al * be / p).
    assert (Hq : 0 < q) by (unfold q, p; lra).
    assert (E1 : exp (- (mu * ((Ax - Bx) * (Ax - Bx) + (Ay - By) * (Ay - By) + (Az - Bz) * (Az - Bz))))
                 = exp (- mu * (Ax - Bx) ^ 2) * exp (- mu * (Ay - By) ^ 2) * exp (- mu * (Az - Bz) ^ 2)).
    { rewrite <- !exp_plus. f_equal. ring. }
    assert (E2 : exp (- (p * ((Px - Cx) * (Px - Cx) + (Py - Cy) * (Py - Cy) + (Pz - Cz) * (Pz - Cz))) * s)
                 = exp (- (p * s) * (Px - Cx) ^ 2) * exp (- (p * s) * (Py - Cy) ^ 2)
                   * exp (- (p * s) * (Pz - Cz) ^ 2)).
    { rewrite <- !exp_plus. f_equal. ring. }
    assert (E3 : PI / q = sqrt (PI / q) * sqrt (PI / q)).
    { symmetry. apply sqrt_sqrt. apply Rlt_le, Rdiv_lt_0_compat; [apply PI_RGT_0 | exact Hq]. }
    set (r := sqrt (PI / q)) in *.
    rewrite E1, E2, E3. ring.
Qed.

(* the same statement in the raw variables (no prefactor 2/sqrt PI): combined exponent q = p + u^2,
   combined centre W = (p P + u^2 C)/q, variance 1/(2q) *)
Theorem gaussian_at_fixed_u_raw (Cx Cy Cz Ax Ay Az Bx By Bz al be : R) (ca cb : Shell.comp) (u : R) :
  0 < al -> 0 < be ->
  let p := al + be in
  let Px := (al * Ax + be * Bx) / p in let Py := (al * Ay + be * By) / p in
  let Pz := (al * Az + be * Bz) / p in
  let mu := al * be / p in
  let q := p + u ^ 2 in
  let Wx := (p * Px + u ^ 2 * Cx) / q in let Wy := (p * Py + u ^ 2 * Cy) / q in
  let Wz := (p * Pz + u ^ 2 * Cz) / q in
  gint3 (fun x y z => cprim al Ax Ay Az ca x y z * cprim be Bx By Bz cb x y z
                      * exp (- u ^ 2 * ((x - Cx) ^ 2 + (y - Cy) ^ 2 + (z - Cz) ^ 2)))
        (PI / q * sqrt (PI / q)
         * exp (- mu * ((Ax - Bx) ^ 2 + (Ay - By) ^ 2 + (Az - Bz) ^ 2))
         * exp (- (p * u ^ 2 / q) * ((Px - Cx) ^ 2 + (Py - Cy) ^ 2 + (Pz - Cz) ^ 2))
         * (S3 RKd (vR q) (Wx - Ax) (Wx - Bx) 0 0 0 (cx ca) (cx cb)
            * S3 RKd (vR q) (Wy - Ay) (Wy - By) 0 0 0 (cy ca) (cy cb)
            * S3 RKd (vR q) (Wz - Az) (Wz - Bz) 0 0 0 (cz ca) (cz cb))).
Proof.
  intros Ha Hb p Px Py Pz mu q Wx Wy Wz. assert (Hw : 0 <= u ^ 2) by apply pow2_ge_0.
  pose proof (three_gauss_1d al be (u ^ 2) Ax Bx Cx (cx ca) (cx cb) Ha Hb Hw) as Hx.
  pose proof (three_gauss_1d al be (u ^ 2) Ay By Cy (cy ca) (cy cb) Ha Hb Hw) as Hy.
  pose proof (three_gauss_1d al be (u ^ 2) Az Bz Cz (cz ca) (cz cb) Ha Hb Hw) as Hz.
  cbv zeta in Hx, Hy, Hz.
  fold p in Hx, Hy, Hz. fold q in Hx, Hy, Hz. fold mu in Hx, Hy, Hz.
  fold Px in Hx. fold Py in Hy. fold Pz in Hz. fold Wx in Hx. fold Wy in Hy. fold Wz in Hz.
  assert (Hq : 0 < q) by (unfold q, p; lra).
  refine (gint3_ext _ _ _ _ _ _ (gint3_prod _ _ _ _ _ _ Hx Hy Hz)).
  - intros x y z. rewrite !cprim_split. unfold cg1.
    replace (- u ^ 2 * ((x - Cx) ^ 2 + (y - Cy) ^ 2 + (z - Cz) ^ 2))
      with (- u ^ 2 * (x - Cx) ^ 2 + - u ^ 2 * (y - Cy) ^ 2 + - u ^ 2 * (z - Cz) ^ 2) by ring.
    rewrite !exp_plus. ring.
  - assert (E1 : exp (- mu * ((Ax - Bx) ^ 2 + (Ay - By) ^ 2 + (Az - Bz) ^ 2))
                 = exp (- mu * (Ax - Bx) ^ 2) * exp (- mu * (Ay - By) ^ 2) * exp (- mu * (Az - Bz) ^ 2)).
    { rewrite <- !exp_plus. f_equal. ring. }
    assert (E2 : exp (- (p * u ^ 2 / q) * ((Px - Cx) ^ 2 + (Py - Cy) ^ 2 + (Pz - Cz) ^ 2))
                 = exp (- (p * u ^ 2 / q) * (Px - Cx) ^ 2) * exp (- (p * u ^ 2 / q) * (Py - Cy) ^ 2)
                   * exp (- (p * u ^ 2 / q) * (Pz - Cz) ^ 2)).
    { rewrite <- !exp_plus. f_equal. ring. }
    assert (E3 : PI / q = sqrt (PI / q) * sqrt (PI / q)).
    { symmetry. apply sqrt_sqrt. apply Rlt_le, Rdiv_lt_0_compat; [apply PI_RGT_0 | exact Hq]. }
    set (r := sqrt (PI / q)) in *.
    rewrite E1, E2, E3. ring.
Qed.

(* ------------------------------------------------------------------ *)
(* 5. (iv) the substitution t = u / sqrt(p + u^2)                      *)
(* ------------------------------------------------------------------ *)
Definition tau (p u : R) : R := u / sqrt (p + u ^ 2).
Definition dtau (p u : R) : R := p / ((p + u ^ 2) * sqrt (p + u ^ 2)).

Lemma q_pos p u : 0 < p -> 0 < p + u ^ 2.
Proof. intro Hp. pose proof (pow2_ge_0 u). lra. Qed.

Lemma tau_0 p : tau p 0 = 0.
Proof. unfold tau, Rdiv. ring. Qed.

Lemma tau_sq p u : 0 < p -> tau p u ^ 2 = u ^ 2 / (p + u ^ 2).
Proof.
  intro Hp. pose proof (q_pos p u Hp) as Hq. assert (Hs : 0 < sqrt (p + u ^ 2)) by now apply sqrt_lt_R0.
  pose proof (sqrt_sqrt (p + u ^ 2) (Rlt_le _ _ Hq)) as Hr. unfold tau.
  set (r := sqrt (p + u ^ 2)) in *. rewrite <- Hr. field. lra.
Qed.

(* dt/du = p (p + u^2)^{-3/2} *)
Lemma tau_derive p u : 0 < p -> is_derive (tau p) u (dtau p u).
Proof.
  intro Hp. pose proof (q_pos p u Hp) as Hq. assert (Hs : 0 < sqrt (p + u ^ 2)) by now apply sqrt_lt_R0.
  pose proof (sqrt_sqrt (p + u ^ 2) (Rlt_le _ _ Hq)) as Hr.
  unfold tau, dtau. auto_derive.
  - replace (p + u * (u * 1)) with (p + u ^ 2) by ring. repeat split; lra.
  - replace (p + u * (u * 1)) with (p + u ^ 2) by ring.
    set (r := sqrt (p + u ^ 2)) in *.
    assert (Hp' : p = r * r - u ^ 2) by lra. rewrite Hp'. field. lra.
Qed.

Lemma dtau_continuous p u : 0 < p -> continuous (dtau p) u.
Proof.
  intro Hp. pose proof (q_pos p u Hp) as Hq. assert (Hs : 0 < sqrt (p + u ^ 2)) by now apply sqrt_lt_R0.
  apply (ex_derive_continuous (dtau p) u). unfold dtau. auto_derive.
  replace (p + u * (u * 1)) with (p + u ^ 2) by ring. repeat split; try exact I; try lra.
  apply Rgt_not_eq. now apply Rmult_lt_0_compat.
Qed.

(* 0 < tau < 1 and 1 - tau <= p / u^2 for u > 0 *)
Lemma tau_bounds p u : 0 < p -> 0 < u -> 0 < tau p u < 1 /\ 1 - tau p u <= p / u ^ 2.
Proof.
  intros Hp Hu. pose proof (q_pos p u Hp) as Hq.
  assert (Hs : 0 < sqrt (p + u ^ 2)) by now apply sqrt_lt_R0.
  pose proof (sqrt_sqrt (p + u ^ 2) (Rlt_le _ _ Hq)) as Hr. unfold tau.
  set (r := sqrt (p + u ^ 2)) in *.
  assert (Hu2 : u ^ 2 = u * u) by ring.
  assert (Hru : u < r) by nra.
  assert (Hp' : p = r * r - u ^ 2) by lra.
  split; [split|].
  - now apply Rdiv_lt_0_compat.
  - apply Rmult_lt_reg_r with r; [exact Hs|]. unfold Rdiv. rewrite Rmult_assoc, Rinv_l by lra. lra.
  - replace (1 - u / r) with (p / (r * (r + u))) by (rewrite Hp'; field; split; lra).
    unfold Rdiv. apply Rmult_le_compat_l; [lra|].
    apply Rinv_le_contravar; [rewrite Hu2; now apply Rmult_lt_0_compat | nra].
Qed.

Lemma tau_lim p : 0 < p -> filterlim (tau p) (Rbar_locally p_infty) (locally 1).
Proof.
  intros Hp P [eps HP]. destruct eps as [e He]. cbn [pos] in HP.
  exists (Rmax 1 (p / e)). intros U HU. apply HP.
  assert (H1 : 1 < U) by (pose proof (Rmax_l 1 (p / e)); lra).
  assert (H2 : p / e < U) by (pose proof (Rmax_r 1 (p / e)); lra).
  destruct (tau_bounds p U Hp) as [[B0 B1] B2]; [lra|].
  change (Rabs (tau p U - 1) < e). rewrite Rabs_left1 by lra.
  apply Rle_lt_trans with (1 := (Req_le _ _ (Ropp_minus_distr _ _))).
  apply Rle_lt_trans with (1 := B2).
  assert (HU2 : 0 < U ^ 2) by (apply pow_lt; lra).
  apply (proj2 (Rlt_div_l p e (U ^ 2) HU2)).
  apply (proj1 (Rlt_div_l p U e He)) in H2. nra.
Qed.

(* change of variable on the half line: for every continuous g,
     int_0^oo g(u / sqrt(p+u^2)) p (p+u^2)^{-3/2} du = int_0^1 g(t) dt *)
Theorem hint_subst_tau (p : R) (g : R -> R) : 0 < p -> (forall t, continuous g t) ->
  hint (fun u => dtau p u * g (tau p u)) (RInt g 0 1).
Proof.
  intros Hp Hg.
  assert (Hex : forall a b, ex_RInt g a b).
  { intros a b. apply (ex_RInt_continuous g a b). intros z _. apply Hg. }
  set (Ig := fun z : R => RInt g 0 z).
  assert (Hc : continuous Ig 1).
  { apply (continuous_RInt_1 g 0 1 Ig). apply filter_forall. intro z. apply (RInt_correct g 0 z). apply Hex. }
  assert (Hlim : filterlim (fun U => Ig (tau p U)) (Rbar_locally p_infty) (locally (Ig 1))).
  { apply (filterlim_comp _ _ _ (tau p) Ig (Rbar_locally p_infty) (locally 1) (locally (Ig 1)));
      [now apply tau_lim | exact Hc]. }
  rewrite hint_spelled_out. intro eps.
  destruct (Hlim (fun y => Rabs (y - Ig 1) < eps)) as [M HM].
  { exists eps. intros y Hy. exact Hy. }
  exists M. intros b Hb. exists (Ig (tau p b)). split; [|exact (HM b Hb)].
  pose proof (is_RInt_comp g (tau p) (dtau p) 0 b) as H. rewrite tau_0 in H. apply H.
  - intros x _. apply Hg.
  - intros x _. split; [now apply tau_derive | now apply dtau_continuous].
Qed.

(* ------------------------------------------------------------------ *)
(* 6. the u-integral of Ju is prim_val                                 *)
(* ------------------------------------------------------------------ *)
Lemma speval_continuous (f : list R) (x : R) : continuous (SPoly.peval RK f) x.
Proof.
  induction f as [|c f IH].
  - apply continuous_const.
  - apply (continuous_plus (fun _ : R => c) (fun s : R => s * SPoly.peval RK f s)).
    + apply continuous_const.
    + apply (continuous_mult (fun s : R => s) (SPoly.peval RK f)); [apply continuous_id | exact IH].
Qed.

(* Gprod is a polynomial in s: the coefficient list prim_poly of Proofs/OneElecP.v *)
Lemma Gprod_is_poly (Cx Cy Cz Ax Ay Az Bx By Bz al be : R) (ca cb : Shell.comp) (s : R) :
  Gprod Cx Cy Cz Ax Ay Az Bx By Bz al be ca cb s
  = SPoly.peval RK (prim_poly RKB Cx Cy Cz Ax Ay Az Bx By Bz al be ca cb) s.
Proof.
  rewrite <- peval_RKB, (prim_poly_eval RKB RKB_field Cx Cy Cz Ax Ay Az Bx By Bz al be ca cb s).
  reflexivity.
Qed.

(* the t-integrand of BoysBridge.prim_val_is_t_integral *)
Definition tint (Cx Cy Cz Ax Ay Az Bx By Bz al be : R) (ca cb : Shell.comp) (t : R) : R :=
  let p := al + be in
  let Px := (al * Ax + be * Bx) / p in let Py := (al * Ay + be * By) / p in
  let Pz := (al * Az + be * Bz) / p in
  let pc2 := (Px - Cx) * (Px - Cx) + (Py - Cy) * (Py - Cy) + (Pz - Cz) * (Pz - Cz) in
  Gprod Cx Cy Cz Ax Ay Az Bx By Bz al be ca cb (t ^ 2) * exp (- (p * pc2) * t ^ 2).

Lemma tint_continuous Cx Cy Cz Ax Ay Az Bx By Bz al be ca cb t :
  continuous (tint Cx Cy Cz Ax Ay Az Bx By Bz al be ca cb) t.
Proof.
  unfold tint. cbv zeta.
  set (T := (al + be) * _).
  apply (continuous_mult (fun t : R => Gprod Cx Cy Cz Ax Ay Az Bx By Bz al be ca cb (t ^ 2))
                         (fun t : R => exp (- T * t ^ 2))).
  - apply (continuous_ext (fun t : R => SPoly.peval RK (prim_poly RKB Cx Cy Cz Ax Ay Az Bx By Bz al be ca cb) (t ^ 2))).
    + intro x. symmetry. apply Gprod_is_poly.
    + apply (continuous_comp (fun t : R => t ^ 2) (SPoly.peval RK _)).
      * apply (ex_derive_continuous (fun t : R => t ^ 2) t). auto_derive. exact I.
      * apply speval_continuous.
  - apply (ex_derive_continuous (fun t : R => exp (- T * t ^ 2)) t). auto_derive. exact I.
Qed.

Theorem prim_val_is_tint_integral (Cx Cy Cz Ax Ay Az Bx By Bz al be : R) (ca cb : Shell.comp) :
  let p := al + be in
  let mu := al * be / p in
  let ab2 := (Ax - Bx) * (Ax - Bx) + (Ay - By) * (Ay - By) + (Az - Bz) * (Az - Bz) in
  prim_val RKB Cx Cy Cz Ax Ay Az Bx By Bz al be ca cb
  = (1 + 1) * PI / p * exp (- (mu * ab2)) * RInt (tint Cx Cy Cz Ax Ay Az Bx By Bz al be ca cb) 0 1.
Proof. cbv zeta. rewrite prim_val_is_t_integral. reflexivity. Qed.

(* Ju is the t-integrand composed with the substitution, times the Jacobian, times the constant prefactor *)
Lemma Ju_as_substitution (Cx Cy Cz Ax Ay Az Bx By Bz al be : R) (ca cb : Shell.comp) (u : R) :
  0 < al -> 0 < be ->
  let p := al + be in
  let mu := al * be / p in
  let ab2 := (Ax - Bx) * (Ax - Bx) + (Ay - By) * (Ay - By) + (Az - Bz) * (Az - Bz) in
  Ju Cx Cy Cz Ax Ay Az Bx By Bz al be ca cb u
  = ((1 + 1) * PI / p * exp (- (mu * ab2)))
    * (dtau p u * tint Cx Cy Cz Ax Ay Az Bx By Bz al be ca cb (tau p u)).
Proof.
  intros Ha Hb p mu ab2. assert (Hp : 0 < p) by (unfold p; lra).
  pose proof (q_pos p u Hp) as Hq. assert (Hs : 0 < sqrt (p + u ^ 2)) by now apply sqrt_lt_R0.
  pose proof sqrt_PI_pos as Hpi.
  pose proof (sqrt_sqrt PI (Rlt_le _ _ PI_RGT_0)) as Epi.
  pose proof (sqrt_sqrt (p + u ^ 2) (Rlt_le _ _ Hq)) as Hr.
  unfold Ju, tint, dtau, mu, ab2. cbv zeta. fold p. rewrite (tau_sq p u Hp).
  rewrite (sqrt_div_alt PI (p + u ^ 2) Hq).
  set (G := Gprod _ _ _ _ _ _ _ _ _ _ _ _ _ _).
  set (e1 := exp (- (al * be / p * _))). set (e2 := exp (- (p * _) * _)).
  set (r := sqrt (p + u ^ 2)) in *. set (sp := sqrt PI) in *.
  rewrite <- Epi, <- Hr. field. repeat split; lra.
Qed.

Theorem Ju_integral (Cx Cy Cz Ax Ay Az Bx By Bz al be : R) (ca cb : Shell.comp) :
  0 < al -> 0 < be ->
  hint (Ju Cx Cy Cz Ax Ay Az Bx By Bz al be ca cb) (prim_val RKB Cx Cy Cz Ax Ay Az Bx By Bz al be ca cb).
Proof.
  intros Ha Hb. assert (Hp : 0 < al + be) by lra.
  pose proof (prim_val_is_tint_integral Cx Cy Cz Ax Ay Az Bx By Bz al be ca cb) as Hv. cbv zeta in Hv.
  refine (hint_ext _ _ _ _ _ (eq_sym Hv)
            (hint_scal _ _ _ (hint_subst_tau (al + be) (tint Cx Cy Cz Ax Ay Az Bx By Bz al be ca cb) Hp
                                (tint_continuous Cx Cy Cz Ax Ay Az Bx By Bz al be ca cb)))).
  intro u. symmetry. exact (Ju_as_substitution Cx Cy Cz Ax Ay Az Bx By Bz al be ca cb u Ha Hb).
Qed.

(* ------------------------------------------------------------------ *)
(* 7. composition: (B2) modulo the exchange of integrals               *)
(* ------------------------------------------------------------------ *)
Lemma dist2_pos Cx Cy Cz x y z : (x, y, z) <> (Cx, Cy, Cz) -> 0 < dist2 Cx Cy Cz x y z.
Proof.
  intro Hne. unfold dist2.
  pose proof (pow2_ge_0 (x - Cx)) as H1. pose proof (pow2_ge_0 (y - Cy)) as H2.
  pose proof (pow2_ge_0 (z - Cz)) as H3.
  destruct (Req_dec (x - Cx) 0) as [Ex|Ex]; [|assert (0 < (x - Cx) ^ 2) by (apply pow2_gt_0; exact Ex); lra].
  destruct (Req_dec (y - Cy) 0) as [Ey|Ey]; [|assert (0 < (y - Cy) ^ 2) by (apply pow2_gt_0; exact Ey); lra].
  destruct (Req_dec (z - Cz) 0) as [Ez|Ez]; [|assert (0 < (z - Cz) ^ 2) by (apply pow2_gt_0; exact Ez); lra].
  exfalso. apply Hne. f_equal; [f_equal|]; lra.
Qed.

(* (i) at the level of the integrand: off the point r = C, the Coulomb integrand IS the u-integral of the kernel *)
Theorem coulomb_integrand_is_u_integral (Cx Cy Cz Ax Ay Az Bx By Bz al be : R) (ca cb : Shell.comp)
        (x y z : R) : (x, y, z) <> (Cx, Cy, Cz) ->
  hint (fun u => coulomb_kernel Cx Cy Cz Ax Ay Az Bx By Bz al be ca cb u x y z)
       (coulomb_integrand Cx Cy Cz Ax Ay Az Bx By Bz al be ca cb x y z).
Proof.
  intro Hne. pose proof (dist2_pos Cx Cy Cz x y z Hne) as Hd.
  unfold coulomb_kernel, coulomb_integrand.
  set (f := cprim al Ax Ay Az ca x y z * cprim be Bx By Bz cb x y z).
  refine (hint_ext _ _ _ _ _ _ (hint_scal f _ _ (inv_sqrt_laplace _ Hd))).
  - intro u. cbv beta. ring.
  - reflexivity.
Qed.

Corollary coulomb_HInt_integrand_eq (Cx Cy Cz Ax Ay Az Bx By Bz al be : R) (ca cb : Shell.comp)
          (x y z : R) : (x, y, z) <> (Cx, Cy, Cz) ->
  HInt (fun u => coulomb_kernel Cx Cy Cz Ax Ay Az Bx By Bz al be ca cb u x y z)
  = coulomb_integrand Cx Cy Cz Ax Ay Az Bx By Bz al be ca cb x y z.
Proof. intro Hne. apply HInt_correct. now apply coulomb_integrand_is_u_integral. Qed.

(* everything of (B2) except the order of integration, with no hypothesis:
     int_0^oo [ iterated integral over R^3 of the kernel at u ] du = prim_val *)
Theorem coulomb_u_then_r_integral_is_prim_val (Cx Cy Cz Ax Ay Az Bx By Bz al be : R) (ca cb : Shell.comp) :
  0 < al -> 0 < be ->
  exists J : R -> R,
    (forall u, gint3 (coulomb_kernel Cx Cy Cz Ax Ay Az Bx By Bz al be ca cb u) (J u)) /\
    hint J (prim_val RKB Cx Cy Cz Ax Ay Az Bx By Bz al be ca cb).
Proof.
  intros Ha Hb. exists (Ju Cx Cy Cz Ax Ay Az Bx By Bz al be ca cb). split.
  - intro u. now apply gaussian_at_fixed_u.
  - now apply Ju_integral.
Qed.

(* (ii), the one step left: the iterated integral over R^3 of F equals the u-integral of the iterated
   integrals over R^3 of K u — for F r = int_0^oo K u r du (r <> C) *)
Definition exchange_holds (K : R -> R -> R -> R -> R) (F : R -> R -> R -> R) : Prop :=
  forall (J : R -> R) (L : R),
    (forall u, 0 <= u -> gint3 (K u) (J u)) -> hint J L -> gint3 F L.

Theorem coulomb_prim_is_prim_val_modulo_exchange (Cx Cy Cz Ax Ay Az Bx By Bz al be : R)
        (ca cb : Shell.comp) : 0 < al -> 0 < be ->
  exchange_holds (coulomb_kernel Cx Cy Cz Ax Ay Az Bx By Bz al be ca cb)
                 (coulomb_integrand Cx Cy Cz Ax Ay Az Bx By Bz al be ca cb) ->
  gint3 (fun x y z => cprim al Ax Ay Az ca x y z * cprim be Bx By Bz cb x y z
                      / sqrt ((x - Cx) ^ 2 + (y - Cy) ^ 2 + (z - Cz) ^ 2))
        (prim_val RKB Cx Cy Cz Ax Ay Az Bx By Bz al be ca cb).
Proof.
  intros Ha Hb Hex.
  apply (Hex (Ju Cx Cy Cz Ax Ay Az Bx By Bz al be ca cb)).
  - intros u _. now apply gaussian_at_fixed_u.
  - now apply Ju_integral.
Qed.

(* the same with the integrand written through the u-integral from the start *)
Theorem coulomb_prim_is_prim_val_modulo_exchange_HInt (Cx Cy Cz Ax Ay Az Bx By Bz al be : R)
        (ca cb : Shell.comp) : 0 < al -> 0 < be ->
  exchange_holds (coulomb_kernel Cx Cy Cz Ax Ay Az Bx By Bz al be ca cb)
                 (fun x y z => HInt (fun u => coulomb_kernel Cx Cy Cz Ax Ay Az Bx By Bz al be ca cb u x y z)) ->
  gint3 (fun x y z =>
           HInt (fun u => 2 / sqrt PI * (cprim al Ax Ay Az ca x y z * cprim be Bx By Bz cb x y z)
                          * exp (- u ^ 2 * ((x - Cx) ^ 2 + (y - Cy) ^ 2 + (z - Cz) ^ 2))))
        (prim_val RKB Cx Cy Cz Ax Ay Az Bx By Bz al be ca cb).
Proof.
  intros Ha Hb Hex.
  apply (Hex (Ju Cx Cy Cz Ax Ay Az Bx By Bz al be ca cb)).
  - intros u _. now apply gaussian_at_fixed_u.
  - now apply Ju_integral.
Qed.

(* the value is determined by the integrand alone: whatever the iterated integral of the Coulomb integrand
   is, IF the exchange holds it is prim_val *)
Corollary coulomb_value_modulo_exchange (Cx Cy Cz Ax Ay Az Bx By Bz al be : R) (ca cb : Shell.comp) (l : R) :
  0 < al -> 0 < be ->
  exchange_holds (coulomb_kernel Cx Cy Cz Ax Ay Az Bx By Bz al be ca cb)
                 (coulomb_integrand Cx Cy Cz Ax Ay Az Bx By Bz al be ca cb) ->
  gint3 (coulomb_integrand Cx Cy Cz Ax Ay Az Bx By Bz al be ca cb) l ->
  l = prim_val RKB Cx Cy Cz Ax Ay Az Bx By Bz al be ca cb.
Proof.
  intros Ha Hb Hex Hl. apply (gint3_unique _ _ _ Hl).
  exact (coulomb_prim_is_prim_val_modulo_exchange Cx Cy Cz Ax Ay Az Bx By Bz al be ca cb Ha Hb Hex).
Qed.

(* ------------------------------------------------------------------ *)
(* 8. the hypotheses are satisfiable                                   *)
(* ------------------------------------------------------------------ *)
Example inv_r_hypothesis_satisfiable : exists r, 0 < r /\ hint (fun u => exp (- u ^ 2 * r ^ 2)) (sqrt PI / (2 * r)).
Proof. exists 1. split; [lra|]. apply inv_r_gaussian_representation. lra. Qed.

Example three_gauss_hypotheses_satisfiable : exists al be w : R, 0 < al /\ 0 < be /\ 0 <= w.
Proof. exists 1, 1, 0. repeat split; lra. Qed.

Example hint_subst_tau_hypotheses_satisfiable :
  exists (p : R) (g : R -> R), 0 < p /\ (forall t, continuous g t) /\
    hint (fun u => dtau p u * g (tau p u)) (RInt g 0 1).
Proof.
  exists 1, (fun _ => 1).
  assert (Hc : forall t : R, continuous (fun _ : R => 1) t) by (intro t; apply continuous_const).
  split; [lra|]. split; [exact Hc|]. apply hint_subst_tau; [lra | exact Hc].
Qed.

(* the premises under which [exchange_holds] is applied are satisfied for every Gaussian pair: the hypothesis
   is used at a non-vacuous instance *)
Example exchange_premises_satisfied :
  exists (J : R -> R) (L : R),
    (forall u, 0 <= u -> gint3 (coulomb_kernel 0 0 0 0 0 0 0 0 0 1 1 (0, 0, 0)%nat (0, 0, 0)%nat u) (J u))
    /\ hint J L.
Proof.
  destruct (coulomb_u_then_r_integral_is_prim_val 0 0 0 0 0 0 0 0 0 1 1 (0, 0, 0)%nat (0, 0, 0)%nat Rlt_0_1 Rlt_0_1)
    as [J [H1 H2]].
  exists J, (prim_val RKB 0 0 0 0 0 0 0 0 0 1 1 (0, 0, 0)%nat (0, 0, 0)%nat). split; [|exact H2].
  intros u _. apply H1.
Qed.

(* the predicate [exchange_holds] itself is satisfiable (trivial kernel); for the Gaussian kernel its
   satisfiability is equivalent to the conclusion of the theorem, i.e. it IS the trusted statement *)
Example exchange_holds_satisfiable_abstract : exchange_holds (fun _ _ _ _ => 0) (fun _ _ _ => 0).
Proof.
  intros J L HJ HL.
  assert (Hz : gint3 (fun _ _ _ : R => 0) 0).
  { refine (gint3_ext _ _ _ _ _ _ (gint3_prod _ _ _ _ _ _ gint_zero gint_zero gint_zero));
      [intros; ring | ring]. }
  assert (EJ : forall u, 0 <= u -> J u = 0).
  { intros u Hu. exact (gint3_unique _ _ _ (HJ u Hu) Hz). }
  assert (EL : L = 0).
  { apply (hint_unique J); [exact HL|].
    rewrite hint_spelled_out. intro eps. exists 0. intros b Hb. exists 0. split.
    - apply (is_RInt_ext (fun _ : R => 0)).
      + intros x Hx. symmetry. apply EJ. rewrite Rmin_left in Hx by lra. lra.
      + apply is_RInt_zero.
    - rewrite Rminus_0_r, Rabs_R0. apply cond_pos. }
  rewrite EL. exact Hz.
Qed.

Lemma exchange_equivalent_to_conclusion (Cx Cy Cz Ax Ay Az Bx By Bz al be : R) (ca cb : Shell.comp) :
  0 < al -> 0 < be ->
  (exchange_holds (coulomb_kernel Cx Cy Cz Ax Ay Az Bx By Bz al be ca cb)
                  (coulomb_integrand Cx Cy Cz Ax Ay Az Bx By Bz al be ca cb)
   <-> gint3 (coulomb_integrand Cx Cy Cz Ax Ay Az Bx By Bz al be ca cb)
             (prim_val RKB Cx Cy Cz Ax Ay Az Bx By Bz al be ca cb)).
Proof.
  intros Ha Hb. split.
  - intro Hex. exact (coulomb_prim_is_prim_val_modulo_exchange Cx Cy Cz Ax Ay Az Bx By Bz al be ca cb Ha Hb Hex).
  - intros Hv J L HJ HL.
    assert (EJ : forall u, 0 <= u -> J u = Ju Cx Cy Cz Ax Ay Az Bx By Bz al be ca cb u).
    { intros u Hu. apply (gint3_unique _ _ _ (HJ u Hu)). now apply gaussian_at_fixed_u. }
    assert (EL : L = prim_val RKB Cx Cy Cz Ax Ay Az Bx By Bz al be ca cb).
    { apply (hint_unique J); [exact HL|].
      pose proof (Ju_integral Cx Cy Cz Ax Ay Az Bx By Bz al be ca cb Ha Hb) as HJu.
      rewrite hint_spelled_out in HJu |- *. intro eps. destruct (HJu eps) as [M HM].
      exists (Rmax M 0). intros b Hb'. destruct (HM b) as [y [Hy Hd]]; [pose proof (Rmax_l M 0); lra|].
      exists y. split; [|exact Hd].
      apply (is_RInt_ext (Ju Cx Cy Cz Ax Ay Az Bx By Bz al be ca cb)); [|exact Hy].
      intros x Hx. symmetry. apply EJ. pose proof (Rmax_r M 0). rewrite Rmin_left in Hx by lra. lra. }
    rewrite EL. exact Hv.
Qed.
