(* Model/DiffOp.v — model of gbasis/integrals/_diff_operator_int.py and of the
   kernels built on it: kinetic_energy.py, momentum.py, angular_momentum.py.

   [dtable] mirrors _compute_differential_operator_integrals_intermediate
   (_diff_operator_int.py:58-125) for one axis and one primitive pair: the
   overlap table is computed with the left angular momentum PADDED by the
   derivative order D, then
       D^{k+1}[j][i] = 2 alpha D^k[j][i+1] - i D^k[j][i-1]     (0 <= i < la+D)
   and the last column is left at 0 (the zeros the array was created with);
   finally the slice [: la+1] is returned.  Every step shrinks the valid region
   by one column; the padding is what keeps columns 0..la valid at order D. *)
From Coq Require Import List Arith Lia.
From GB Require Import Base.Field Base.FNum Base.Tables Gauss.Moment1D Model.Shell Model.MomentInt.
Import ListNotations.

Section DiffOp.
Context {F : Type} (K : Fops F).
Local Open Scope F_scope.
Notation "0" := (f0 K) : F_scope.
Notation "1" := (f1 K) : F_scope.
Infix "+" := (fadd K) : F_scope.
Infix "*" := (fmul K) : F_scope.
Infix "-" := (fsub K) : F_scope.
Infix "/" := (fdiv K) : F_scope.
Notation "- x" := (fopp K x) : F_scope.
Notation "# n" := (ofnat K n) (at level 5) : F_scope.
Notation fsum := (FNum.fsum K).

Section Axis.
Variables (Ax Bx alpha beta : F) (la lb D : nat).

(* row length of the padded table *)
Definition ncol : nat := S (la + D).

Definition dstep (cur : list (list F)) : list (list F) :=
  map (fun row => mk ncol (fun i =>
    if Nat.eqb i (la + D) then 0
    else (1 + 1) * alpha * nth (S i) row 0 - #i * nth (i - 1) row 0)) cur.

Fixpoint diter (n : nat) (cur : list (list F)) : list (list (list F)) :=
  match n with O => [cur] | S n' => cur :: diter n' (dstep cur) end.

(* full (unsliced) table [k][j][i], i <= la + D *)
Definition dtable_full : list (list (list F)) :=
  diter D (plane0 K Ax Bx alpha beta (la + D) lb).
(* the returned slice [:, :, : la+1] *)
Definition dtable : list (list (list F)) := map (map (firstn (S la))) dtable_full.
End Axis.

(* tables for every primitive pair *)
Definition dtabs (D : nat) (sa sb : shell F) : list (list (table3 (F:=F))) :=
  map (fun beta => map (fun alpha =>
        (dtable (s_x sa) (s_x sb) alpha beta (s_l sa) (s_l sb) D,
         dtable (s_y sa) (s_y sb) alpha beta (s_l sa) (s_l sb) D,
         dtable (s_z sa) (s_z sb) alpha beta (s_l sa) (s_l sb) D)) (s_exps sa)) (s_exps sb).

(* _compute_differential_operator_integrals: [order][Ma][La][Mb][Lb] *)
Definition diffop_block (orders : list comp) (sa sb : shell F) :=
  let D := omax orders in
  let tabs := dtabs D sa sb in
  map (fun o => block_of K sa sb (fun ca cb => map (map (fun t => prim3 K t o ca cb)) tabs)) orders.

Definition map4 {A B} (f : A -> B) (b : list (list (list (list A)))) := map (map (map (map f))) b.
Definition zip4 {A B C} (f : A -> B -> C) (x : list (list (list (list A))))
           (y : list (list (list (list B)))) : list (list (list (list C))) :=
  map (fun '(a1, b1) => map (fun '(a2, b2) => map (fun '(a3, b3) =>
    map (fun '(a4, b4) => f a4 b4) (combine a3 b3)) (combine a2 b2)) (combine a1 b1)) (combine x y).

(* kinetic_energy.py:78-95: -0.5 * sum over the three second derivatives *)
Definition kinetic_block (sa sb : shell F) : list (list (list (list F))) :=
  match diffop_block [(2, 0, 0); (0, 2, 0); (0, 0, 2)]%nat sa sb with
  | [dx; dy; dz] =>
      map4 (fun x => (- (1 / (1 + 1))) * x) (zip4 (fadd K) (zip4 (fadd K) dx dy) dz)
  | _ => []
  end.

(* momentum.py:91-106: value = -i * R; the model returns R as [Ma][La][Mb][Lb][3] *)
Definition momentum_block_re (sa sb : shell F) : list (list (list (list (list F)))) :=
  match diffop_block [(1, 0, 0); (0, 1, 0); (0, 0, 1)]%nat sa sb with
  | [dx; dy; dz] => zip4 (fun xy z => xy ++ [z]) (zip4 (fun x y => [x; y]) dx dy) dz
  | _ => []
  end.

(* angular_momentum.py:91-158: value = -i * R, R = [Ma][La][Mb][Lb][3];
   L_x ~ S_x (M1_y D1_z - M1_z D1_y) and cyclic, moments about the coordinate origin *)
Definition angmom_prim (d m : table3 (F:=F)) (ca cb : comp) : list F :=
  let '(dx, dy, dz) := d in let '(mx, my, mz) := m in
  let '(ax, ay, az) := ca in let '(bx, by_, bz) := cb in
  let S0 t b a := nth3 K 0 b a t in let M1 t b a := nth3 K 1 b a t in
  let D1 t b a := nth3 K 1 b a t in
  [ fapx K (S0 mx bx ax * (M1 my by_ ay * D1 dz bz az - M1 mz bz az * D1 dy by_ ay));
    fapx K (S0 my by_ ay * (M1 mz bz az * D1 dx bx ax - M1 mx bx ax * D1 dz bz az));
    fapx K (S0 mz bz az * (M1 mx bx ax * D1 dy by_ ay - M1 my by_ ay * D1 dx bx ax)) ].

Definition angmom_block_re (sa sb : shell F) : list (list (list (list (list F)))) :=
  let dts := dtabs 1 sa sb in
  let mts := tabs K 0 0 0 [(1, 0, 0)%nat] sa sb in
  let comp_block (c : nat) :=
    block_of K sa sb (fun ca cb =>
      map (fun '(drow, mrow) => map (fun '(d, m) => nth c (angmom_prim d m ca cb) 0)
                                    (combine drow mrow)) (combine dts mts)) in
  zip4 (fun xy z => xy ++ [z]) (zip4 (fun x y => [x; y]) (comp_block 0%nat) (comp_block 1%nat))
       (comp_block 2%nat).

(* moment.py: Moment.construct_array_contraction = transpose of mm_block to [Ma][La][Mb][Lb][D] *)
Definition moment_block (Cx Cy Cz : F) (orders : list comp) (sa sb : shell F)
  : list (list (list (list (list F)))) :=
  let blocks := mm_block K Cx Cy Cz orders sa sb in   (* [D][Ma][La][Mb][Lb] *)
  match blocks with
  | [] => []
  | b0 :: _ =>
    mk (length b0) (fun ma => mk (length (nth ma b0 [])) (fun ia =>
      mk (length (nth ia (nth ma b0 []) [])) (fun mb =>
        mk (length (nth mb (nth ia (nth ma b0 []) []) [])) (fun ib =>
          map (fun blk => nth ib (nth mb (nth ia (nth ma blk []) []) []) 0) blocks))))
  end.

End DiffOp.
