(* Model/Assembly.v — model of the array-assembly base classes
   (gbasis/base_one.py, base_two_symm.py, base_two_asymm.py, base_four_symm.py).

   A shell-pair block has shape (M_1, L_1, M_2, L_2, ...): nested lists
   blk[m1][c1][m2][c2].  The code (base_two_symm.py:154-181 and the parallel
   spherical / mix methods)
     1. multiplies by the two contraction norms norm_cont[m][c],
     2. contracts the component axis of a spherical shell with its transform,
     3. flattens (m, c) segment-major on both sides,
     4. evaluates only blocks i <= j and fills the rest by transposition,
     5. (lincomb) applies T on both indices.
   [two_symm] follows these steps; the trailing "..." axes are carried in the
   element type [A] (a module with scaling and addition) so the same function
   serves matrices (overlap, kinetic), stacks of matrices (moments, momentum,
   point charges) without change. *)
From Coq Require Import List Arith Lia Bool.
From GB Require Import Base.Field Base.FNum Base.Tables Model.Shell Model.Spherical.
Import ListNotations.

Section Assembly.
Context {F : Type} (K : Fops F).

(* elements: an F-module given by zero, addition, scaling *)
Context {A : Type} (azero : A) (aadd : A -> A -> A) (ascale : F -> A -> A).

Definition asum (l : list A) : A := fold_right aadd azero l.

Definition transpose {B} (d : B) (m : list (list B)) : list (list B) :=
  mk (length (hd [] m)) (fun c => map (fun row => nth c row d) m).

(* horizontal concatenation of row-compatible matrices *)
Fixpoint hcat {B} (ms : list (list (list B))) : list (list B) :=
  match ms with
  | [] => []
  | [m] => m
  | m :: rest => map (fun '(r1, r2) => r1 ++ r2) (combine m (hcat rest))
  end.
Definition vcat {B} (ms : list (list (list B))) : list (list B) := concat ms.

(* T (rows x cols, over F) applied to a vector of elements *)
Definition apply_rows (T : list (list F)) (v : list A) : list A :=
  map (fun trow => asum (map (fun '(t, x) => ascale t x) (combine trow v))) T.

(* step 1: block[m1][c1][m2][c2] *= n1[m1][c1] * n2[m2][c2] *)
Definition normalise (n1 n2 : list (list F)) (blk : list (list (list (list A)))) :=
  map (fun '(nrow1, b1) => map (fun '(x1, b2) =>
    map (fun '(nrow2, b3) => map (fun '(x2, e) => ascale (fmul K x1 x2) e) (combine nrow2 b3))
        (combine n2 b2)) (combine nrow1 b1)) (combine n1 blk).

(* step 2, left index: new[m1][s1] = sum_c1 T[s1][c1] blk[m1][c1]  (a (M2,L2) slab each) *)
Definition slab_add (x y : list (list A)) : list (list A) :=
  map (fun '(r1, r2) => map (fun '(e1, e2) => aadd e1 e2) (combine r1 r2)) (combine x y).
Definition slab_scale (t : F) (x : list (list A)) : list (list A) := map (map (ascale t)) x.
Definition slab_zero (x : list (list A)) : list (list A) := map (map (fun _ => azero)) x.

Definition transform_left (T : list (list F)) (blk : list (list (list (list A)))) :=
  map (fun b1 (* [c1][m2][c2] *) =>
    map (fun trow => fold_right slab_add (slab_zero (hd [] b1))
                       (map (fun '(t, sl) => slab_scale t sl) (combine trow b1))) T) blk.
(* right index: new[m1][c1][m2][s2] = sum_c2 T[s2][c2] blk[m1][c1][m2][c2] *)
Definition transform_right (T : list (list F)) (blk : list (list (list (list A)))) :=
  map (map (map (fun row => apply_rows T row))) blk.

(* step 3: (M1, L1, M2, L2) -> (M1 L1) x (M2 L2), segment-major *)
Definition flatten_block (blk : list (list (list (list A)))) : list (list A) :=
  flat_map (fun b1 => map (fun b2 => concat b2) b1) blk.

Definition shell_block (sph1 sph2 : bool) (T1 T2 : list (list F)) (n1 n2 : list (list F))
           (blk : list (list (list (list A)))) : list (list A) :=
  let b := normalise n1 n2 blk in
  let b := if sph1 then transform_left T1 b else b in
  let b := if sph2 then transform_right T2 b else b in
  flatten_block b.

(* steps 4: upper triangle evaluated, lower = plain transpose (base_two_symm.py:171-181);
   [bf i j] is the processed block of shells i, j *)
Definition two_symm_blocks (n : nat) (bf : nat -> nat -> list (list A)) : list (list A) :=
  vcat (mk n (fun i => hcat (mk n (fun j =>
    if Nat.leb i j then bf i j else transpose azero (bf j i))))).

(* base_two_asymm: every block evaluated *)
Definition two_asymm_blocks (n1 n2 : nat) (bf : nat -> nat -> list (list A)) : list (list A) :=
  vcat (mk n1 (fun i => hcat (mk n2 (fun j => bf i j)))).

(* step 5: T applied to index 0 then index 1 *)
Definition lincomb2 (T1 T2 : list (list F)) (m : list (list A)) : list (list A) :=
  let cols := transpose azero m in                 (* cols[c] = column c *)
  let m1 := transpose azero (map (apply_rows T1) cols) in    (* T1 on index 0 *)
  map (apply_rows T2) m1.                          (* T2 on index 1 *)

End Assembly.
