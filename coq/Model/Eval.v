(* Model/Eval.v — model of gbasis/evals/_deriv.py, evals/eval.py, evals/eval_deriv.py and of the
   one-index assembly gbasis/base_one.py:112-294.

   One axis, one primitive: d^n/dx^n [x^l exp(-alpha x^2)] = P(x) exp(-alpha x^2).
   [u]              the specification of P: u l 0 = x^l, u l (n+1) = l u (l-1) n - 2 alpha u (l+1) n
                    (iterating the elementary rule proved over R in Gauss/DerivBridge.v).
   [deriv_general]  the Leibniz sum of _eval_deriv_contractions (_deriv.py:108-134).  The code's factor
                    (-sqrt alpha)^k * eval_hermite(k, sqrt alpha * x) is the rational polynomial [herm]
                    (no square root survives: h_0 = 1, h_{k+1} = -2 alpha (x h_k + k h_{k-1})).
   [deriv_direct]   the hand-expanded first / second derivatives of _first_derivative and
                    _second_derivative (_deriv.py:241-387) with their l = 0 / l = 1 / l >= 2 branches;
                    the two nested `if any(second_ang_comp[0] ...)` tests are the flags has1, has2.
   [eval_block]     EvalDeriv.construct_array_contraction (eval_deriv.py:58-138): (M, L, N).
   [evaluate_deriv_basis_model]  evaluate_deriv_basis / evaluate_basis (norm_cont, per-shell spherical
                    transform, segment-major flattening, stacking, optional transform).
   The model answers [None] ("rejected") exactly where the property says a request must be refused:
   back-end "direct" with some order > 2, and an unknown back-end name. *)
From Coq Require Import List Arith Lia Bool.
From GB Require Import Base.Field Base.FNum Base.Tables Model.Shell Model.MomentInt
  Model.Spherical Model.Assembly Model.Overlap.
Import ListNotations.

Inductive backend := General | Direct | OtherBackend.

Section Eval.
Context {F : Type} (K : Fops F).
Local Open Scope F_scope.
Notation "0" := (f0 K) : F_scope.
Notation "1" := (f1 K) : F_scope.
Infix "+" := (fadd K) : F_scope.
Infix "*" := (fmul K) : F_scope.
Infix "-" := (fsub K) : F_scope.
Infix "/" := (fdiv K) : F_scope.
Notation "- x" := (fopp K x) : F_scope.
Notation "# n" := (ofnat K n) (at level 5) : F_scope.
Notation fpow := (FNum.fpow K).
Notation fsum := (FNum.fsum K).
Notation sumn := (Tables.sumn 0 (fadd K)).

(* ------------------------------------------------------------------ *)
(* specification                                                        *)
(* ------------------------------------------------------------------ *)
Fixpoint u (alpha : F) (l n : nat) (x : F) {struct n} : F :=
  match n with
  | O => fpow x l
  | S n' => (match l with O => 0 | S l' => #l * u alpha l' n' x end)
            - (1 + 1) * alpha * u alpha (S l) n' x
  end.

(* ------------------------------------------------------------------ *)
(* general back-end, one axis                                           *)
(* ------------------------------------------------------------------ *)
(* (h_m, h_{m-1}) : h_m(x) = (-sqrt alpha)^m H_m(sqrt alpha x), by the Hermite three-term rule *)
Fixpoint hpair (alpha x : F) (m : nat) : F * F :=
  match m with
  | O => (1, 0)
  | S m' => let '(a, b) := hpair alpha x m' in (- ((1 + 1) * alpha * (x * a + #m' * b)), a)
  end.
Definition herm (alpha x : F) (m : nat) : F := fst (hpair alpha x m).

(* scipy.special.comb(n, k): Pascal's triangle in the field, 0 for k > n *)
Fixpoint pbin (n k : nat) : F :=
  match n, k with
  | _, O => 1
  | O, S _ => 0
  | S n', S k' => pbin n' k' + pbin n' (S k')
  end.

(* scipy.special.perm(l, j) = l (l-1) ... (l-j+1), 0 for j > l *)
Fixpoint ffall (l j : nat) : F :=
  match j with O => 1 | S j' => #l * ffall (l - 1) j' end.

(* one entry of `coeffs * eval_hermite` (_deriv.py:113-133) for Hermite index k:
   zeroed when k < max(0, n - l) or n < k; the power index l - n + k is then >= 0 *)
Definition gen_term (n l : nat) (alpha x : F) (k : nat) : F :=
  if (k <? n - l) || (n <? k) then 0
  else pbin n k * ffall l (n - k) * fpow x (l + k - n) * herm alpha x k.

(* [nmax] = np.max(nonzero_orders): every differentiated axis sums over k = 0..nmax;
   an axis of order 0 goes through `zeroth_part` (_deriv.py:84-90) *)
Definition deriv_general_upto (nmax n l : nat) (alpha x : F) : F :=
  if Nat.eqb n 0 then fpow x l else sumn (S nmax) (gen_term n l alpha x).
Definition deriv_general (n l : nat) (alpha x : F) : F := deriv_general_upto n n l alpha x.

(* ------------------------------------------------------------------ *)
(* direct back-end, one axis                                            *)
(* ------------------------------------------------------------------ *)
(* _first_derivative (_deriv.py:275-299) *)
Definition direct_first (l : nat) (alpha x : F) : F :=
  if Nat.eqb l 0 then - ((1 + 1) * alpha) * fpow x 1
  else fpow x (l - 1) * (#l - (1 + 1) * alpha * (x * x)).

(* _second_derivative (_deriv.py:338-385); has1 = any(second_ang_comp[0] == 1),
   has2 = any(second_ang_comp[0] >= 2), both read from the FIRST axis of order two *)
Definition direct_second (has1 has2 : bool) (l : nat) (alpha x : F) : F :=
  let a4 := (1 + 1 + 1 + 1) * (alpha * alpha) in
  if has1 && has2 && (2 <=? l) then
    fpow x (l - 2) * (a4 * fpow x 4 - alpha * (#4 * #l + #2) * (x * x) + #l * #(l - 1))
  else if has1 && Nat.eqb l 1 then a4 * fpow x 3 - #6 * alpha * x
  else a4 * (x * x) - (1 + 1) * alpha.

(* orders above two have no formula: the request must be refused before this is reached
   (the value 0 is never used, see [eval_block]) *)
Definition deriv_direct (has1 has2 : bool) (n l : nat) (alpha x : F) : F :=
  match n with
  | 0%nat => fpow x l
  | 1%nat => direct_first l alpha x
  | 2%nat => direct_second has1 has2 l alpha x
  | _ => 0
  end.

(* ------------------------------------------------------------------ *)
(* the same two routines as the arrays the code builds (what the block runs) *)
(* ------------------------------------------------------------------ *)
(* x^0 .. x^n and h_0 .. h_n as rows (each entry from the previous ones) *)
Definition xpows (x : F) (n : nat) : list F := iter2 (fun _ cur _ => x * cur) n 0%nat 1 0.
Definition hrow (alpha x : F) (n : nat) : list F :=
  iter2 (fun j cur prev => - ((1 + 1) * alpha * (x * cur + #j * prev))) n 0%nat 1 0.

(* comb * perm with the two zeroing rules: independent of the point and of the primitive *)
Definition gen_coef (n l k : nat) : F :=
  if (k <? n - l) || (n <? k) then 0 else pbin n k * ffall l (n - k).
Definition gen_ctab (nmax n L : nat) : list (list F) :=
  mk (S L) (fun l => mk (S nmax) (gen_coef n l)).

(* values for the powers l = 0..L of one axis of order n (general back-end) *)
Definition gen_row (nmax n L : nat) (ct : list (list F)) (alpha x : F) : list F :=
  let xs := xpows x (L + nmax) in
  if Nat.eqb n 0 then mk (S L) (fun l => nth l xs 0)
  else
    let hs := hrow alpha x nmax in
    mk (S L) (fun l =>
      let cr := nth l ct [] in
      sumn (S nmax) (fun k => nth k cr 0 * nth (l + k - n) xs 0 * nth k hs 0)).

(* ------------------------------------------------------------------ *)
(* one shell: EvalDeriv.construct_array_contraction                     *)
(* ------------------------------------------------------------------ *)
Definition point := (F * F * F)%type.
Definition comp_ax (ax : nat) (c : comp) : nat :=
  let '(a, b, d) := c in match ax with 0%nat => a | 1%nat => b | _ => d end.
Definition order_max (o : comp) : nat := let '(a, b, d) := o in Nat.max a (Nat.max b d).

(* the request a back-end accepts *)
Definition accepts (bk : backend) (o : comp) : bool :=
  match bk with
  | General => true
  | Direct => order_max o <=? 2
  | OtherBackend => false
  end.

(* first axis differentiated twice, and the two `any` tests on its row of components *)
Definition first2 (o : comp) : option nat :=
  let '(a, b, d) := o in
  if Nat.eqb a 2 then Some 0%nat else if Nat.eqb b 2 then Some 1%nat
  else if Nat.eqb d 2 then Some 2%nat else None.
Definition flags (comps : list comp) (o : comp) : bool * bool :=
  match first2 o with
  | None => (false, false)
  | Some ax => (existsb (fun c => Nat.eqb (comp_ax ax c) 1) comps,
                existsb (fun c => 2 <=? comp_ax ax c) comps)
  end.

Definition fabs (x : F) : F := if fleb K 0 x then x else - x.

(* how the rows of axis polynomials are produced; the coefficient tables of the general
   back-end are built once per (shell, orders).  [absm]: error-scale mode, see [block_scale] *)
Inductive rowmode :=
| RGen (absm : bool) (nmax : nat) (cx cy cz : list (list F))
| RDir (h1 h2 : bool).

Definition gen_mode (absm : bool) (L : nat) (o : comp) : rowmode :=
  let '(ox, oy, oz) := o in let nmax := order_max o in
  RGen absm nmax (gen_ctab nmax ox L) (gen_ctab nmax oy L) (gen_ctab nmax oz L).
Definition mode_of (bk : backend) (L : nat) (comps : list comp) (o : comp) : rowmode :=
  match bk with
  | Direct => let '(h1, h2) := flags comps o in RDir h1 h2
  | _ => gen_mode false L o
  end.

(* row over the powers 0..L of axis [ax] (0, 1, 2) with order n *)
Definition axis_row (md : rowmode) (ax n L : nat) (alpha x : F) : list F :=
  match md with
  | RGen absm nmax cx cy cz =>
      let ct := match ax with 0%nat => cx | 1%nat => cy | _ => cz end in
      if absm then gen_row nmax n L ct (- (fabs alpha)) (fabs x) else gen_row nmax n L ct alpha x
  | RDir h1 h2 => mk (S L) (fun l => deriv_direct h1 h2 n l alpha x)
  end.

Section Block.
(* [cm] is applied to the contraction coefficients (identity, or |.| for the error scale) *)
Variables (md : rowmode) (cm : F -> F).
(* [ef] the exponential: fexp K, or the constant 1 for the second error scale (see [block_scale]) *)
Variable ef : F -> F.
Variables (s : shell F) (o : comp).

(* per primitive and point: the Gaussian (ONE exp of the exact argument) and the three rows *)
Definition prim_data (p : point) (alpha : F) : F * (list F * list F * list F) :=
  let '(px, py, pz) := p in let '(ox, oy, oz) := o in
  let dx := px - s_x s in let dy := py - s_y s in let dz := pz - s_z s in
  (ef (- (alpha * (dx * dx + dy * dy + dz * dz))),
   (axis_row md 0 ox (s_l s) alpha dx,
    axis_row md 1 oy (s_l s) alpha dy,
    axis_row md 2 oz (s_l s) alpha dz)).

(* norm * zeroth_part * deriv_part for one point: [L][K] *)
Definition pt_vals (nrms : list (list F)) (p : point) : list (list F) :=
  let pd := map (prim_data p) (s_exps s) in
  map (fun '(c, nrow) =>
    let '(ax, ay, az) := c in
    map (fun '(nrm, (e, (rx, ry, rz))) => nrm * (nth ax rx 0 * nth ay ry 0 * nth az rz 0) * e)
        (combine nrow pd))
    (combine (comps_of s) nrms).

(* np.tensordot(prim_coeffs, ..., (0, 0)) for one point: [M][L] *)
Definition pt_mat (nrms : list (list F)) (p : point) : list (list F) :=
  let v := pt_vals nrms p in
  mk (nseg s) (fun m => map (fun vals =>
    fsum (map (fun '(crow, x) => cm (nth m crow 0) * x) (combine (s_coeffs s) vals))) v).

(* (M, L, N) *)
Definition block_with (pts : list point) : list (list (list F)) :=
  let nrms := norms K s in
  let mats := map (pt_mat nrms) pts in
  mk (nseg s) (fun m => mk (length (comps_of s)) (fun c =>
    map (fun pm => nth c (nth m pm []) 0) mats)).
End Block.

Definition eval_block (s : shell F) (pts : list point) (o : comp) (bk : backend)
  : option (list (list (list F))) :=
  if accepts bk o then
    Some (block_with (mode_of bk (s_l s) (comps_of s) o) (fun c => c) (fexp K) s o pts)
  else None.

(* Eval.construct_array_contraction (eval.py:56-111): the general routine with orders zero *)
Definition eval_block0 (s : shell F) (pts : list point) : list (list (list F)) :=
  block_with (gen_mode false (s_l s) (0, 0, 0)%nat) (fun c => c) (fexp K) s (0, 0, 0)%nat pts.

(* error scale: the same sum with every monomial of the axis polynomial and every coefficient
   replaced by its absolute value (all monomials x^(l-n+2j) of u carry the sign (-1)^j, so
   u (-|alpha|) l n |x| is the sum of their absolute values; it is computed by the general row).
   With [nog] the Gaussian factor is replaced by 1: the sensitivity of the entry to an absolute
   error of the Gaussian (used for Gaussians in the subnormal range of double precision). *)
Definition block_scale (nog : bool) (s : shell F) (pts : list point) (o : comp)
  : list (list (list F)) :=
  block_with (gen_mode true (s_l s) o) fabs (if nog then (fun _ => 1) else fexp K) s o pts.

(* ------------------------------------------------------------------ *)
(* whole basis: base_one.py                                             *)
(* ------------------------------------------------------------------ *)
(* contractions.py:523-524 again, but reading only the diagonal entries [m][c][m][c] that
   einsum("ijij->ij") keeps: the same numbers as Overlap.norm_cont (same tables, same order of
   summation) without the (L x L) off-diagonal work.  Equality with [norm_cont] is cross-checked by
   the harness on every run (runner command 106). *)
(* since the lead's restructuring of MomentInt (tables bound once) Overlap.norm_cont is cheap:
   the shortcut is now the same function *)
Definition norm_cont_diag (s : shell F) : list (list F) := norm_cont K s.
Definition prep_fast (s : shell F) : @pshell F :=
  mkP s (norm_cont_diag s) (shell_transform K s).

(* array *= norm_cont[m][c] (base_one.py:134, 167, 226) *)
Definition normalise1 (nc : list (list F)) (blk : list (list (list F))) : list (list (list F)) :=
  map (fun '(nrow, b1) => map (fun '(x, row) => map (fmul K x) row) (combine nrow b1))
      (combine nc blk).

(* per shell: normalise, transform the component axis of a spherical shell
   (tensordot(transform, block, (1, 1)) then swapaxes), flatten segment-major *)
Definition shell_rows (tabs : F -> F) (sph : bool) (T nc : list (list F))
           (blk : list (list (list F))) : list (list F) :=
  let b := normalise1 nc blk in
  let b := if sph then
             map (fun b1 => apply_rows (map (fun _ => 0) (hd [] b1))
                              (fun x y => map (fun '(a, c) => a + c) (combine x y))
                              (fun t x => map (fmul K t) x) (map (map tabs) T) b1) b
           else b in
  concat b.

Definition one_index (tabs : F -> F) (blocks : list (@pshell F * list (list (list F))))
           (T : option (list (list F))) : list (list F) :=
  let rows := concat (map (fun '(p, blk) =>
                 shell_rows tabs (s_sph (p_shell p)) (p_T p) (p_norm p) blk) blocks) in
  match T with
  | None => rows
  | Some t =>       (* np.tensordot(transform, array, (1, 0)), base_one.py:294 *)
      apply_rows (map (fun _ => 0) (hd [] rows))
        (fun x y => map (fun '(a, c) => a + c) (combine x y))
        (fun t x => map (fmul K t) x) (map (map tabs) t) rows
  end.

(* evaluate_deriv_basis(basis, points, orders, transform, deriv_type): (K_funcs, N) or rejected *)
Definition evaluate_deriv_basis_model (basis : list (shell F)) (pts : list point) (o : comp)
           (T : option (list (list F))) (bk : backend) : option (list (list F)) :=
  if accepts bk o then
    Some (one_index (fun x => x)
            (map (fun s => (prep_fast s,
                   block_with (mode_of bk (s_l s) (comps_of s) o) (fun c => c) (fexp K) s o pts)) basis) T)
  else None.

(* evaluate_basis(basis, points, transform) *)
Definition evaluate_basis_model (basis : list (shell F)) (pts : list point)
           (T : option (list (list F))) : list (list F) :=
  one_index (fun x => x) (map (fun s => (prep_fast s, eval_block0 s pts)) basis) T.

(* sum of the absolute values of all terms that make up each entry (tolerance scale) *)
Definition evaluate_scale_model (nog : bool) (basis : list (shell F)) (pts : list point) (o : comp)
           (T : option (list (list F))) : list (list F) :=
  one_index fabs (map (fun s => (prep_fast s, block_scale nog s pts o)) basis) T.

End Eval.
