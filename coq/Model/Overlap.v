(* Model/Overlap.v — overlap integrals of a whole basis (gbasis/integrals/overlap.py,
   contractions.py:503-524 assign_norm_cont, base_two_symm.py, base_two_asymm.py). *)
From Coq Require Import List Arith Lia Bool.
From GB Require Import Base.Field Base.FNum Base.Tables Model.Shell Model.MomentInt
  Model.Spherical Model.Assembly.
Import ListNotations.

Section Overlap.
Context {F : Type} (K : Fops F).

Definition nth4 (m1 c1 m2 c2 : nat) (blk : list (list (list (list F)))) : F :=
  nth c2 (nth m2 (nth c1 (nth m1 blk []) []) []) (f0 K).

(* contractions.py:523-524: diagonal of the shell's own overlap block, ** -0.5 *)
Definition norm_cont (s : shell F) : list (list F) :=
  let blk := overlap_block K s s in
  mk (nseg s) (fun m => mk (length (comps_of s)) (fun c =>
    fapx K (fdiv K (f1 K) (fsqrt K (nth4 m c m c blk))))).

(* per-shell data used by every assembly *)
Record pshell := mkP { p_shell : shell F; p_norm : list (list F); p_T : list (list F) }.
Definition prep (s : shell F) : pshell := mkP s (norm_cont s) (shell_transform K s).

Section Generic.
Context {A : Type} (azero : A) (aadd : A -> A -> A) (ascale : F -> A -> A).
Variable blockf : shell F -> shell F -> list (list (list (list A))).

Definition pblock (p1 p2 : pshell) : list (list A) :=
  shell_block K azero aadd ascale (s_sph (p_shell p1)) (s_sph (p_shell p2))
    (p_T p1) (p_T p2) (p_norm p1) (p_norm p2) (blockf (p_shell p1) (p_shell p2)).

Definition dummy_p : pshell :=
  mkP (mkShell F 0 (f0 K) (f0 K) (f0 K) [] [] false [] []) [] [].

Definition two_symm_integral (basis : list (shell F)) (T : option (list (list F))) : list (list A) :=
  let ps := map prep basis in
  let n := length ps in
  (* every upper block is evaluated once (as in the code) and looked up afterwards *)
  let tbl := mk n (fun i => mk n (fun j =>
               if Nat.leb i j then pblock (nth i ps dummy_p) (nth j ps dummy_p) else [])) in
  let m := two_symm_blocks azero n (fun i j => nth j (nth i tbl []) []) in
  match T with None => m | Some t => lincomb2 azero aadd ascale t t m end.

Definition two_asymm_integral (b1 b2 : list (shell F)) (T1 T2 : option (list (list F)))
  : list (list A) :=
  let ps1 := map prep b1 in let ps2 := map prep b2 in
  let m := two_asymm_blocks (length ps1) (length ps2)
             (fun i j => pblock (nth i ps1 dummy_p) (nth j ps2 dummy_p)) in
  match T1, T2 with
  | None, None => m
  | _, _ =>
    let ident n := mk n (fun i => mk n (fun j => if Nat.eqb i j then f1 K else f0 K)) in
    let t1 := match T1 with Some t => t | None => ident (length m) end in
    let t2 := match T2 with Some t => t | None => ident (length (hd [] m)) end in
    lincomb2 azero aadd ascale t1 t2 m
  end.
End Generic.

Definition overlap_integral (basis : list (shell F)) (T : option (list (list F))) : list (list F) :=
  two_symm_integral (f0 K) (fadd K) (fmul K) (overlap_block K) basis T.

Definition overlap_integral_asymm (b1 b2 : list (shell F)) (T1 T2 : option (list (list F))) :=
  two_asymm_integral (f0 K) (fadd K) (fmul K) (overlap_block K) b1 b2 T1 T2.

End Overlap.
