(* Model/ParsersRun.v — glue for running Model/Parsers.v from the correspondence check harness/c18.py.
   No theorems.  (a) serializers: every result of the model is turned into ONE string that the harness
   parses (symbols are word characters, number literals are over 0-9 . D E + -, so the separators
   | ; , : / @ # ! = never occur inside an item); (b) [lookup]: a [layout] component from a finite table;
   (c) boolean comparisons used to tie the harness's file writer to the Coq printers ([check_nw],
   [check_gbs] answer with one string of T/F flags). *)
From Coq Require Import List String Ascii Bool Arith.
From GB Require Import Model.Parsers.
Import ListNotations.
Open Scope string_scope.
Open Scope list_scope.
Open Scope nat_scope.

(* ------------------------------------------------------------------ decimal numerals *)
Definition digit (n : nat) : string := String (ascii_of_nat (48 + n)) EmptyString.
Fixpoint dec_aux (fuel n : nat) (acc : string) : string :=
  match fuel with
  | 0 => acc
  | S f => let acc' := digit (n mod 10) +++ acc in
           if n <? 10 then acc' else dec_aux f (n / 10) acc'
  end.
Definition dec (n : nat) : string := dec_aux (S n) n EmptyString.

Definition sjoin (sep : string) (l : list string) : string := String.concat sep l.
Definition bstr (b : bool) : string := if b then "T" else "F".

(* ------------------------------------------------------------------ serializers *)
(* shell  l/e1,e2,../c11,c21,../c12,c22,..   (one "/"-part per coefficient column) *)
Definition ser_shell (s : shell) : string :=
  let '(l, e, cols) := s in sjoin "/" (dec l :: sjoin "," e :: map (sjoin ",") cols).
(* dict   Sym:shell;shell|Sym:shell  in insertion order *)
Definition ser_dict (d : dict) : string :=
  sjoin "|" (map (fun kv => fst kv +++ ":" +++ sjoin ";" (map ser_shell (snd kv))) d).
Definition ser_odict (o : option dict) : string :=
  match o with None => "N" | Some d => "S" +++ ser_dict d end.

Definition ser_ctypes (c : ctypes) : string :=
  match c with
  | CStr s => "s=" +++ s
  | CList l => "l=" +++ sjoin "," l
  | CTuple l => "t=" +++ sjoin "," l
  end.
(* one contraction  icenter@coordindex@shell@type *)
Definition ser_contraction (c : contraction (C:=nat)) : string :=
  let '(ic, co, sh, ty) := c in sjoin "@" [dec ic; dec co; ser_shell sh; ty].
Definition ser_mc_args (a : mc_args (C:=nat)) : string :=
  let '(d, atoms, coords, ct) := a in
  sjoin "#" [ser_dict d; sjoin "," atoms; sjoin "," (map dec coords); ser_ctypes ct].
(* result ! arguments as the caller sees them after the call *)
Definition ser_mc (r : option (list (contraction (C:=nat))) * mc_args (C:=nat)) : string :=
  (match fst r with None => "N" | Some l => "S" +++ sjoin "|" (map ser_contraction l) end)
  +++ "!" +++ ser_mc_args (snd r).

(* from_pyscf: one shell  l@coordindex@e1,e2,..@c11,c12,../c21,c22,..@type  (coefficient ROWS, K x M) *)
Definition ser_pyscf (r : option (list (nat * nat * list string * list (list string) * string))) : string :=
  match r with
  | None => "N"
  | Some l => "S" +++ sjoin "|" (map (fun x =>
                let '(l, c, e, rows, ty) := x in
                sjoin "@" [dec l; dec c; sjoin "," e; sjoin "/" (map (sjoin ",") rows); ty]) l)
  end.

(* ------------------------------------------------------------------ layouts from finite tables *)
Fixpoint lnat_eqb (a b : list nat) : bool :=
  match a, b with
  | [], [] => true
  | x :: r, y :: s => (x =? y) && lnat_eqb r s
  | _, _ => false
  end.
Fixpoint lookup {X} (tbl : list (list nat * X)) (default : X) (pos : list nat) : X :=
  match tbl with
  | [] => default
  | (p, x) :: r => if lnat_eqb p pos then x else lookup r default pos
  end.

(* ------------------------------------------------------------------ comparisons done inside Coq *)
Fixpoint lines_eqb (a b : list string) : bool :=
  match a, b with
  | [], [] => true
  | x :: r, y :: s => String.eqb x y && lines_eqb r s
  | _, _ => false
  end.
(* [lines]: the lines the harness wrote; [fillers]: every pre/post/fill line of the layout *)
Definition check_nw (a : ast) (L : layout) (lines fillers : list string) : string :=
  "print=" +++ bstr (lines_eqb (print_nwchem a L) lines) +++
  ";wf=" +++ bstr (wf_ast a) +++
  ";fill=" +++ bstr (forallb filler_nw fillers).
Definition check_gbs (a : ast) (L : layout) (lines fillers tok2s tok3s : list string) : string :=
  "print=" +++ bstr (lines_eqb (print_gbs a L) lines) +++
  ";wf=" +++ bstr (wf_ast_gbs close_lit a) +++
  ";fill=" +++ bstr (forallb filler_gbs fillers) +++
  ";tok=" +++ bstr (forallb pure_word tok2s && forallb is_ww tok3s).
