(* Model/Esp.v — executable model of gbasis/evals/electrostatic_potential.py
   (electrostatic_potential, the only function of the module).

   The code (line numbers of gbasis/evals/electrostatic_potential.py at /repo HEAD):
     :79-105   argument validation: density matrix square and symmetric (np.allclose with its
               transpose), as many nuclear coordinates as charges, threshold_dist >= 0;
     :107-149  size check of the density matrix: with a transform against the number of ROWS of the
               transform (the transformed orbitals; any number of rows, i.e. rectangular transforms
               are accepted), without one against the number of contractions of the basis in its
               coordinate types (the three branches cartesian / spherical / mixed compute the same
               sum  sum_shells num_seg_cont * (num_sph | num_cart));
     :150-154  hartree_potential = point_charge_integral(basis, points, -ones, transform)   [K][K][N]
               multiplied elementwise by the density matrix and summed over both orbital axes;
     :157-161  dist[p][A] = (sum_xyz (points[p] - nuclear_coords[A])**2) ** 0.5,
               external_potential[p][A] = nuclear_charges[A] / dist[p][A], set to 0 where
               dist[p][A] < threshold_dist;
     :163      external_potential = - sum over nuclei;
     :165      return -(external_potential + hartree_potential).

   The model keeps this order of operations.  The integrals come from the existing model of
   point_charge_integral (Model/OneBody.v, which multiplies every one-electron integral by -q: with
   the unit NEGATIVE charges of :151 the entries are + int phi_a phi_b / |r - R_p|).
   The isinstance / ndim tests of :79-90, :102 concern Python types and are not represented; the
   np.allclose test of :94 is represented by exact symmetry (the correspondence harness keeps the
   generated matrices exactly symmetric or clearly asymmetric).

   A nucleus exactly ON a point with threshold 0 makes the code divide by zero (result +-inf or nan
   under np.errstate(divide="ignore")); a field has no such value: [esp_undefined] flags these points
   and the value the model returns there is meaningless. *)
From Coq Require Import List Arith Lia Bool.
From GB Require Import Base.Field Base.FNum Base.Tables Model.Shell Model.MomentInt Model.Spherical
  Model.Assembly Model.Overlap Model.OneElec Model.OneBody.
Import ListNotations.

Section Esp.
Context {F : Type} (K : Fops F).
Local Open Scope F_scope.
Notation "0" := (f0 K) : F_scope.
Notation "1" := (f1 K) : F_scope.
Infix "+" := (fadd K) : F_scope.
Infix "*" := (fmul K) : F_scope.
Infix "-" := (fsub K) : F_scope.
Infix "/" := (fdiv K) : F_scope.
Notation "- x" := (fopp K x) : F_scope.
Notation fsum := (FNum.fsum K).
Notation sumn := (Tables.sumn 0 (fadd K)).

Definition pt3 : Type := (F * F * F)%type.

(* x < y, from the interface's <= *)
Definition fltb (x y : F) : bool := negb (fleb K y x).

(* :92-95  shape[0] == shape[1] and allclose(P, P.T) (exact symmetry, see the header) *)
Definition square_symmetric (P : list (list F)) : bool :=
  let n := length P in
  forallb (fun row => Nat.eqb (length row) n) P &&
  forallb (fun i => forallb (fun j =>
    feqb K (nth j (nth i P []) 0) (nth i (nth j P []) 0)) (seq 0 n)) (seq 0 n).

(* contractions.py:464-501 *)
Definition num_cart (l : nat) : nat := ((l + 1) * (l + 2) / 2)%nat.
Definition num_sph (l : nat) : nat := (1 + 2 * l)%nat.
Definition nfun_shell (s : shell F) : nat :=
  ((if s_sph s then num_sph (s_l s) else num_cart (s_l s)) * nseg s)%nat.
(* :120-145: the same sum in all three branches *)
Definition nfun_basis (basis : list (shell F)) : nat := fold_right Nat.add 0%nat (map nfun_shell basis).

(* :109-145 (+ the shape error raised inside point_charge_integral's tensordot, base_two_symm.py,
   when the transform does not have one column per contraction) *)
Definition size_ok (nf : nat) (P : list (list F)) (T : option (list (list F))) : bool :=
  match T with
  | Some t => Nat.eqb (length t) (length P) && forallb (fun row => Nat.eqb (length row) nf) t
  | None => Nat.eqb nf (length P)
  end.

(* :151  the points as unit negative point charges *)
Definition unit_neg_points (points : list pt3) : list (F * F * F * F) :=
  map (fun p : pt3 => (fst (fst p), snd (fst p), snd p, fopp K 1)) points.

(* :150-152  the integrals the code requests, from the untransformed array V (so that a caller can
   share V); [hartree_ints_is_point_charge_integral] (Proofs/EspP.v): this IS
   point_charge_integral K (unit_neg_points points) basis T *)
Definition transformed_ints (V : list (list (list F))) (T : option (list (list F)))
  : list (list (list F)) :=
  match T with None => V | Some t => lincomb2 (vzero (F:=F)) (vadd K) (vscale K) t t V end.

Definition getH (H : list (list (list F))) (a b p : nat) : F := nth p (nth b (nth a H []) []) 0.

(* :153-154  sum_ab H[a][b][p] * P[a][b] *)
Definition hartree (H : list (list (list F))) (P : list (list F)) (p : nat) : F :=
  let n := length P in
  sumn n (fun a => sumn n (fun b => getH H a b p * nth b (nth a P []) 0)).

(* :158 *)
Definition dist2 (p n : pt3) : F :=
  let dx := fst (fst p) - fst (fst n) in
  let dy := snd (fst p) - snd (fst n) in
  let dz := snd p - snd n in
  dx * dx + dy * dy + dz * dz.
Definition dist (p n : pt3) : F := fsqrt K (dist2 p n).

(* :161  the mask: it looks at the distance only *)
Definition masked (thr : F) (p n : pt3) : bool := fltb (dist p n) thr.

(* :159-161 *)
Definition nuc_term (thr : F) (p : pt3) (nz : pt3 * F) : F :=
  if masked thr p (fst nz) then 0 else snd nz / dist p (fst nz).

(* :163 *)
Definition external (thr : F) (nuclei : list (pt3 * F)) (p : pt3) : F :=
  - fsum (map (nuc_term thr p) nuclei).

(* :165 *)
Definition esp_values (H : list (list (list F))) (P : list (list F)) (points : list pt3)
           (nuclei : list (pt3 * F)) (thr : F) : list F :=
  mk (length points) (fun p =>
    - (external thr nuclei (nth p points (0, 0, 0)) + hartree H P p)).

(* points where the code divides a charge by a zero distance that the mask keeps *)
Definition esp_undefined (points : list pt3) (ncoords : list pt3) (thr : F) : list bool :=
  map (fun p => existsb (fun n => feqb K (dist p n) 0 && negb (masked thr p n)) ncoords) points.

(* shape of an integral array: n x n entries, each a vector over np points.  Not used by the model;
   it is the hypothesis of the transform theorem (Proofs/EspP.esp_transform_is_backtransformed) and is
   reported by the runner for the array of every case it evaluates. *)
Definition squareb (n np : nat) (V : list (list (list F))) : bool :=
  Nat.eqb (length V) n &&
  forallb (fun row => Nat.eqb (length row) n && forallb (fun v => Nat.eqb (length v) np) row) V.

(* the function, given the untransformed integrals V and the number of contractions nf *)
Definition esp_with (V : list (list (list F))) (nf : nat) (P : list (list F)) (points : list pt3)
           (ncoords : list pt3) (ncharges : list F) (T : option (list (list F))) (thr : F)
  : option (list F) :=
  if square_symmetric P                                   (* :92-96 *)
     && Nat.eqb (length ncoords) (length ncharges)       (* :97-101 *)
     && negb (fltb thr 0)                                 (* :104-105 *)
     && size_ok nf P T                                    (* :109-149 *)
  then Some (esp_values (transformed_ints V T) P points (combine ncoords ncharges) thr)
  else None.

(* electrostatic_potential(basis, one_density_matrix, points, nuclear_coords, nuclear_charges,
                           transform, threshold_dist);  None = the call raises *)
Definition esp (basis : list (shell F)) (P : list (list F)) (points : list pt3)
           (ncoords : list pt3) (ncharges : list F) (T : option (list (list F))) (thr : F)
  : option (list F) :=
  esp_with (point_charge_integral K (unit_neg_points points) basis None) (nfun_basis basis)
           P points ncoords ncharges T thr.

(* the pinned tree's rules, kept for the record of the two repaired defects
   (commit 205de35, :109-131 and :145-152 there): the mask compared Z/d with 1/threshold, and the
   density matrix was size-checked against the untransformed basis even with a transform *)
Definition nuc_term_pinned (thr : F) (p : pt3) (nz : pt3 * F) : F :=
  let v := snd nz / dist p (fst nz) in
  if fltb (1 / thr) v then 0 else v.
Definition size_ok_pinned (nf : nat) (P : list (list F)) : bool := Nat.eqb nf (length P).

End Esp.
