(* Model/Stress.v — the DOCUMENTED formulas of gbasis/evals/stress_tensor.py as
   formal combinations of the symbols G(o1,o2) of Gauss/Jets.v (hand-written
   from the docstrings, not from the code; the code is tied to them by the
   regenerated Gen/StressTrace.v + Proofs/StressTraceP.v).

   gamma(r,r') = sum_ab P_ab phi_a(r) phi_b(r');  d^o1_r d^o2_r' gamma |_{r=r'} = G(o1,o2);
   rho(r) = gamma(r,r) = G(0,0);  d^L rho = iterated total derivative of G(0,0).

   Index conventions: [stress_doc i j] is sigma_ij = output[n, i, j] of
   evaluate_stress_tensor, [force_doc j] is F_j = output[n, j] of
   evaluate_ehrenfest_force, [hess_doc j k] is H_jk = output[n, j, k] of
   evaluate_ehrenfest_hessian.

   Remark on the docstring of evaluate_ehrenfest_hessian: its first line reads
   "H_jk = - d/dr_k F_j" but the expanded formula below it (and the sentence
   "Ehrenfest Hessian is the gradient of the Ehrenfest force") is + d/dr_k F_j;
   property C15 says "the Jacobian of the force given by the documented expanded
   formula", so the expanded formula is the specification. *)
From Coq Require Import QArith Qcanon List Bool.
From GB Require Import Gauss.Jets.
Import ListNotations.
Local Close Scope Qc_scope.
Local Close Scope Q_scope.
Local Open Scope nat_scope.

Definition qhalf : Qc := Q2Qc (1 # 2).
Definition c_al : coef := (0, 1, 0)%Qc.                  (* alpha *)
Definition c_1mal : coef := (1, - (1), 0)%Qc.            (* 1 - alpha *)
Definition c_1m2al : coef := (1, - (1) - 1, 0)%Qc.       (* 1 - 2 alpha *)
Definition c_hbe : coef := (0%Qc, 0%Qc, qhalf).          (* beta / 2 *)

Definition sym (a b : order) : qcomb := [(1%Qc, (a, b))].       (* the symbol G(a,b) *)
Definition rho : qcomb := sym o0 o0.
Definition e2 (i : axis) : order := oadd (e_ i) (e_ i).
Definition aeqb (i j : axis) : bool :=
  match i, j with AX, AX | AY, AY | AZ, AZ => true | _, _ => false end.

(* nabla^2 rho = sum_k d_k d_k rho *)
Definition lap_rho : qcomb := lsum (fun k => dkq k (dkq k rho)) axes.

(* stress_tensor.py:16-33, first displayed form (explicitly symmetrised in r, r') *)
Definition stress_doc1 (i j : axis) : comb :=
  scal (csmul (- qhalf)%Qc c_al) (sym (e_ i) (e_ j) ++ sym (e_ j) (e_ i))
  ++ scal (csmul qhalf c_1mal) (sym (oadd (e_ i) (e_ j)) o0 ++ sym o0 (oadd (e_ i) (e_ j)))
  ++ (if aeqb i j then scal (copp c_hbe) lap_rho else []).
(* stress_tensor.py:34-45, second displayed form *)
Definition stress_doc (i j : axis) : comb :=
  scal (copp c_al) (sym (e_ i) (e_ j))
  ++ scal c_1mal (sym (oadd (e_ i) (e_ j)) o0)
  ++ (if aeqb i j then scal (copp c_hbe) lap_rho else []).

(* definition: F_j = - sum_i d_i sigma_ij   (stress_tensor.py:135-136) *)
Definition force_def (j : axis) : comb := lopp (lsum (fun i => dk i (stress_doc i j)) axes).
(* documented expanded formula, stress_tensor.py:137-158 *)
Definition force_doc (j : axis) : comb :=
  scal c_al (lsum (fun i => sym (e2 i) (e_ j)) axes)
  ++ scal (copp c_1mal) (lsum (fun i => sym (oadd (e2 i) (e_ j)) o0) axes)
  ++ scal (copp c_1m2al) (lsum (fun i => sym (oadd (e_ i) (e_ j)) (e_ i)) axes)
  ++ scal c_hbe (lsum (fun i => dordq (oadd (e2 i) (e_ j)) rho) axes).

(* definition: H_jk = d_k F_j (Jacobian of the force) *)
Definition hess_def (j k : axis) : comb := dk k (force_doc j).
(* documented expanded formula, stress_tensor.py:267-300 *)
Definition hess_doc (j k : axis) : comb :=
  scal c_al (lsum (fun i => sym (oadd (e2 i) (e_ k)) (e_ j)
                            ++ sym (e2 i) (oadd (e_ j) (e_ k))) axes)
  ++ scal (copp c_1mal) (lsum (fun i => sym (oadd (oadd (e2 i) (e_ j)) (e_ k)) o0
                                        ++ sym (oadd (e2 i) (e_ j)) (e_ k)) axes)
  ++ scal (copp c_1m2al) (lsum (fun i => sym (oadd (oadd (e_ i) (e_ j)) (e_ k)) (e_ i)
                                         ++ sym (oadd (e_ i) (e_ j)) (oadd (e_ i) (e_ k))) axes)
  ++ scal c_hbe (lsum (fun i => dordq (oadd (oadd (e2 i) (e_ j)) (e_ k)) rho) axes).
(* symmetric=True: the average with the transpose *)
Definition hess_symm (j k : axis) : comb := lscale qhalf (hess_doc j k ++ hess_doc k j).

(* ---- tables in the layout of the outputs (row-major over the 3 / 3x3 components) ---- *)
Definition tab1 (f : axis -> comb) : list comb := map f axes.
Definition tab2 (f : axis -> axis -> comb) : list comb := flat_map (fun i => map (f i) axes) axes.

(* the parameter cases traced by the harness: None = symbolic (generic branch of the
   code), Some v = the special-cased literal value v *)
Definition par := option Qc.
Definition cases : list (par * par) :=
  let al := [None; Some 0%Qc; Some qhalf; Some 1%Qc] in
  flat_map (fun b => map (fun a => (a, b)) al) [None; Some 0%Qc].

(* what each public function must return in a given parameter case *)
Definition spec_stress (a b : par) : list comb := map (lsubst a b) (tab2 stress_doc).
Definition spec_force (a b : par) : list comb := map (lsubst a b) (tab1 force_doc).
Definition spec_hess (a b : par) : list comb := map (lsubst a b) (tab2 hess_doc).
Definition spec_hess_symm (a b : par) : list comb := map (lsubst a b) (tab2 hess_symm).

(* ---- the shape of the regenerated trace (Gen/StressTrace.v) and its comparison ---- *)
Definition mkt (c1 ca cb : Q) (a b : order) : coef * key := ((Q2Qc c1, Q2Qc ca, Q2Qc cb), (a, b)).
Record trace_case := mkcase {
  t_alpha : option Q; t_beta : option Q;        (* None = symbolic *)
  t_stress : list comb;                          (* 9 components, row-major [i][j] of output[n,i,j] *)
  t_force : list comb;                           (* 3 components *)
  t_hess : list comb;                            (* 9 components, symmetric=False *)
  t_hess_symm : list comb }.                     (* 9 components, symmetric=True *)

Definition paramb (p : par) (x : option Q) : bool :=
  match p, x with
  | None, None => true
  | Some a, Some b => Qc_eq_bool a (Q2Qc b)
  | _, _ => false
  end.
Fixpoint all2b {A B} (f : A -> B -> bool) (la : list A) (lb : list B) : bool :=
  match la, lb with
  | [], [] => true
  | a :: la', b :: lb' => f a b && all2b f la' lb'
  | _, _ => false
  end.
Definition check_case (ab : par * par) (tc : trace_case) : bool :=
  paramb (fst ab) (t_alpha tc) && paramb (snd ab) (t_beta tc)
  && all2b equivb (t_stress tc) (spec_stress (fst ab) (snd ab))
  && all2b equivb (t_force tc) (spec_force (fst ab) (snd ab))
  && all2b equivb (t_hess tc) (spec_hess (fst ab) (snd ab))
  && all2b equivb (t_hess_symm tc) (spec_hess_symm (fst ab) (snd ab)).
Definition check_table (tt : list trace_case) : bool := all2b check_case cases tt.

(* ---- flat integer dump used by the harness to evaluate the spec numerically ----
   every term becomes [n1;d1;na;da;nb;db; o1x;o1y;o1z; o2x;o2y;o2z] *)
Definition dump_term (t : coef * key) : list Z :=
  let '((c1, ca, cb), ((a1, a2, a3), (b1, b2, b3))) := t in
  [Qnum c1; Zpos (Qden c1); Qnum ca; Zpos (Qden ca); Qnum cb; Zpos (Qden cb);
   Z.of_nat a1; Z.of_nat a2; Z.of_nat a3; Z.of_nat b1; Z.of_nat b2; Z.of_nat b3].
Definition dump (l : list comb) : list (list (list Z)) := map (fun c => map dump_term (norm c)) l.
