(* Model/OneElec.v — model of gbasis/integrals/_one_elec_int.py
   (_compute_one_elec_integrals), point_charge.py (PointChargeIntegral) and
   nuclear_electron_attraction.py.

   For ONE point charge position C and one primitive pair the code builds
   V[m][ax][ay][az], m <= L = la + lb:
     V[m][0,0,0]   = (2 pi / p) F_m(p |PC|^2) exp(-mu |AB|^2)                  (:89-96)
     x pass  V[m][a+1,0,0] = PA_x V[m][a,0,0] - PC_x V[m+1][a,0,0]
                             + a/(2p) (V[m][a-1,0,0] - V[m+1][a-1,0,0])       (:99-113)
     y pass (every ax), z pass (every ax, ay): same rule on the next axis      (:115-147)
   Only m <= L-1 is written at each step (slices [:-1] / [1:]); row m = L keeps
   the zeros it was created with, so an entry is meaningful iff
   m + ax + ay + az <= L.  The m = 0 slab is multiplied by the primitive norms
   (without the double-factorial part), contracted (a then b) (:150-161), and
   transferred horizontally to the second centre
     I[b+1][a] = I[b][a+1] + AB I[b][a]     per axis, a <= L-1                 (:181-199)
   then sliced to a <= la, scaled by 1/sqrt((2a-1)!!...) for both sides (:203-220).
   point_charge.py swaps the shells when la < lb, selects components, multiplies
   by -q and un-swaps (:203-266).

   [vpass] is written once and applied with the x, y, z parameters; a pass acts
   on rows indexed by m of "channels" (all the other angular indices). *)
From Coq Require Import List Arith Lia Bool.
From GB Require Import Base.Field Base.FNum Base.Tables Model.Shell Model.MomentInt.
Import ListNotations.

Section OneElec.
Context {F : Type} (K : Fops F).
Local Open Scope F_scope.
Notation "0" := (f0 K) : F_scope.
Notation "1" := (f1 K) : F_scope.
Infix "+" := (fadd K) : F_scope.
Infix "*" := (fmul K) : F_scope.
Infix "-" := (fsub K) : F_scope.
Infix "/" := (fdiv K) : F_scope.
Notation "- x" := (fopp K x) : F_scope.
Notation "# n" := (ofnat K n) (at level 5) : F_scope.
Notation fsum := (FNum.fsum K).

Definition zip2 {A B C} (f : A -> B -> C) (x : list A) (y : list B) : list C :=
  map (fun '(a, b) => f a b) (combine x y).

(* ---- vertical pass: rows over m of channel vectors; result [a][m][ch], a <= L ---- *)
Section VPass.
Variables (L : nat) (pa pc twop : F).
Definition vstep (a : nat) (cur prev : list (list F)) : list (list F) :=
  mk (S L) (fun m =>
    let c0 := nth m cur [] in
    if Nat.eqb m L then map (fun _ => 0) c0
    else
      let c1 := nth (S m) cur [] in
      let lead := zip2 (fun x y => pa * x - pc * y) c0 c1 in
      match a with
      | O => lead
      | S _ => zip2 (fadd K) lead
                 (zip2 (fun x y => #a / twop * (x - y)) (nth m prev []) (nth (S m) prev []))
      end).
Definition vpass (v0 : list (list F)) : list (list (list F)) := iter2 vstep L 0%nat v0 [].
End VPass.

(* primitive [a|0]^(0) integrals W[ax][ay][az], ax, ay, az <= L *)
Definition vrr_prim (L : nat) (Ax Ay Az Bx By Bz Cx Cy Cz alpha beta : F) : list (list (list F)) :=
  let p := alpha + beta in
  let Px := (alpha * Ax + beta * Bx) / p in
  let Py := (alpha * Ay + beta * By) / p in
  let Pz := (alpha * Az + beta * Bz) / p in
  let twop := (1 + 1) * p in
  let mu := alpha * beta / p in
  let ab2 := (Ax - Bx) * (Ax - Bx) + (Ay - By) * (Ay - By) + (Az - Bz) * (Az - Bz) in
  let pc2 := (Px - Cx) * (Px - Cx) + (Py - Cy) * (Py - Cy) + (Pz - Cz) * (Pz - Cz) in
  let pref := (1 + 1) * fpi K / p * fexp K (- (mu * ab2)) in
  let T := p * pc2 in
  let v0 := mk (S L) (fun m => [fapx K (pref * fboys K m T)]) in
  let X := vpass L (Px - Ax) (Px - Cx) twop v0 in                      (* [ax][m][1] *)
  let v0y := mk (S L) (fun m => mk (S L) (fun ax => nth 0 (nth m (nth ax X []) []) 0)) in
  let Y := vpass L (Py - Ay) (Py - Cy) twop v0y in                     (* [ay][m][ax] *)
  let v0z := mk (S L) (fun m => concat (mk (S L) (fun ay => nth m (nth ay Y []) []))) in
  let Z := vpass L (Pz - Az) (Pz - Cz) twop v0z in                     (* [az][m][ay*(L+1)+ax] *)
  mk (S L) (fun ax => mk (S L) (fun ay => mk (S L) (fun az =>
    fapx K (nth (ay * S L + ax) (nth 0 (nth az Z []) []) 0)))).

(* ---- horizontal transfer on a cube T[ax][ay][az] ---- *)
Definition cube := list (list (list F)).
Definition cget (t : cube) (x y z : nat) : F := nth z (nth y (nth x t []) []) 0.
Definition hstep (L : nat) (axis : nat) (ab : F) (t : cube) : cube :=
  mk (S L) (fun x => mk (S L) (fun y => mk (S L) (fun z =>
    let idx := match axis with O => x | S O => y | _ => z end in
    if Nat.eqb idx L then 0
    else (match axis with
          | O => cget t (S x) y z
          | S O => cget t x (S y) z
          | _ => cget t x y (S z)
          end) + ab * cget t x y z))).
Fixpoint hiter (L axis : nat) (ab : F) (n : nat) (t : cube) : list cube :=
  match n with O => [t] | S n' => t :: hiter L axis ab n' (hstep L axis ab t) end.

(* I[bx][by][bz] : cube, from the contracted [a|0] cube *)
Definition hrr (L lb : nat) (abx aby abz : F) (t : cube) : list (list (list cube)) :=
  map (fun tx => map (fun ty => hiter L 2 abz lb ty) (hiter L 1 aby lb tx)) (hiter L 0 abx lb t).

Definition inv_sqrt_df (c : comp) : F :=
  let '(x, y, z) := c in 1 / fsqrt K (fdf_odd K x * fdf_odd K y * fdf_odd K z).

(* norm without the double-factorial part (_one_elec_int.py:152-157) *)
Definition norm_rad (l : nat) (alpha : F) : F :=
  fapx K (pow34 K ((1 + 1) * alpha / fpi K) * fsqrt K (FNum.fpow K ((1 + 1 + 1 + 1) * alpha) l)).

(* _compute_one_elec_integrals for one point, shells with la >= lb:
   result [ma][ca][mb][cb] before the charge factor *)
Definition one_elec_point (Cx Cy Cz : F) (sa sb : shell F) : list (list (list (list F))) :=
  let la := s_l sa in let lb := s_l sb in let L := (la + lb)%nat in
  let prims := map (fun beta => map (fun alpha =>
      vrr_prim L (s_x sa) (s_y sa) (s_z sa) (s_x sb) (s_y sb) (s_z sb) Cx Cy Cz alpha beta)
      (s_exps sa)) (s_exps sb) in                                     (* [kb][ka] cube *)
  let na := map (norm_rad la) (s_exps sa) in
  let nb := map (norm_rad lb) (s_exps sb) in
  let abx := s_x sa - s_x sb in let aby := s_y sa - s_y sb in let abz := s_z sa - s_z sb in
  let channel (ma mb : nat) : list (list (list cube)) :=
    let t : cube := mk (S L) (fun x => mk (S L) (fun y => mk (S L) (fun z =>
      fsum (map (fun '(prow, (nbk, crow_b)) =>
        fsum (map (fun '(w, (nak, crow_a)) => cget w x y z * nak * nth ma crow_a 0)
                  (combine prow (combine na (s_coeffs sa))))
        * nbk * nth mb crow_b 0) (combine prims (combine nb (s_coeffs sb))))))) in
    hrr L lb abx aby abz t in
  let chans := mk (nseg sa) (fun ma => mk (nseg sb) (fun mb => channel ma mb)) in
  let nca := map inv_sqrt_df (comps_of sa) in
  let ncb := map inv_sqrt_df (comps_of sb) in
  mk (nseg sa) (fun ma => map (fun '(ca, fa) =>
    mk (nseg sb) (fun mb => map (fun '(cb, fb) =>
      let '(ax, ay, az) := ca in let '(bx, by_, bz) := cb in
      let h := nth mb (nth ma chans []) [] in
      cget (nth bz (nth by_ (nth bx h []) []) []) ax ay az * fa * fb)
      (combine (comps_of sb) ncb))) (combine (comps_of sa) nca)).

(* PointChargeIntegral.construct_array_contraction: [ma][ca][mb][cb][point], with the swap *)
Definition point_charge_block (points : list (F * F * F * F)) (sa sb : shell F)
  : list (list (list (list (list F)))) :=
  let swapped := Nat.ltb (s_l sa) (s_l sb) in
  let per_point := map (fun '(cx, cy, cz, q) =>
      let blk := if swapped then one_elec_point cx cy cz sb sa else one_elec_point cx cy cz sa sb in
      (q, blk)) points in
  let get (blk : list (list (list (list F)))) (ma ia mb ib : nat) : F :=
    if swapped then nth ia (nth ma (nth ib (nth mb blk []) []) []) 0
    else nth ib (nth mb (nth ia (nth ma blk []) []) []) 0 in
  mk (nseg sa) (fun ma => mk (length (comps_of sa)) (fun ia =>
    mk (nseg sb) (fun mb => mk (length (comps_of sb)) (fun ib =>
      map (fun '(q, blk) => (- q) * get blk ma ia mb ib) per_point)))).

End OneElec.
