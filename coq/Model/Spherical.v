(* Model/Spherical.v — model of gbasis/spherical.py generate_transformation
   (spherical.py:229-340) and of the default spherical order
   (contractions.py:425-432).

   A spherical label is (negated?, sine?, |m|): "c2" = (false,false,2),
   "-s1" = (true,true,1).  The model computes, for every label and every
   Cartesian component of the shell, the coefficient of the real regular solid
   harmonic in terms of unit-normalised Cartesian functions, exactly as the
   code does: expansion_coeff * harmonic_norm summed over (i,j,k), then the
   row scaling sqrt(prod (2a-1)!!) / sqrt((2l-1)!!). *)
From Coq Require Import List Arith Lia Bool.
From GB Require Import Base.Field Base.FNum Base.Tables Model.Shell.
Import ListNotations.

Section Spherical.
Context {F : Type} (K : Fops F).
Local Open Scope F_scope.
Notation "0" := (f0 K) : F_scope.
Notation "1" := (f1 K) : F_scope.
Infix "+" := (fadd K) : F_scope.
Infix "*" := (fmul K) : F_scope.
Infix "-" := (fsub K) : F_scope.
Infix "/" := (fdiv K) : F_scope.
Notation "- x" := (fopp K x) : F_scope.
Notation "# n" := (ofnat K n) (at level 5) : F_scope.

(* spherical.py:122-128 *)
Definition harmonic_norm (l m : nat) : F :=
  (1 / (fpow K (1 + 1) m * ffact K l))
  * fsqrt K (((1 + 1) * ffact K (l + m) * ffact K (l - m))
             / (if Nat.eqb m 0 then 1 + 1 else 1)).

(* spherical.py:84-101 with k = z + 1/2 for sine functions: 2k = 2z + s *)
Definition expansion_coeff (l m : nat) (sine : bool) (i j z : nat) : F :=
  let s := if sine then 1%nat else 0%nat in
  fneg1pow K (i + z)
  * fpow K (1 / (1 + 1 + 1 + 1)) i
  * fbinom K l i * fbinom K (l - i) (m + i) * fbinom K i j * fbinom K m (2 * z + s).

(* the (i, j, z) triples of real_solid_harmonic (spherical.py:171-176) *)
Definition triples (l m : nat) : list (nat * nat * nat) :=
  flat_map (fun i => flat_map (fun j => map (fun z => (i, j, z)) (seq 0 (S (m / 2))))
                              (seq 0 (S i)))
           (seq 0 (S ((l - m) / 2))).

Definition comp_eqb (c d : comp) : bool :=
  let '(a1, a2, a3) := c in let '(b1, b2, b3) := d in
  Nat.eqb a1 b1 && Nat.eqb a2 b2 && Nat.eqb a3 b3.

(* coefficient of Cartesian component c in R_{l,m}; terms whose a_x would be
   negative have a vanishing binomial and are dropped like in the code *)
Definition harmonic_coeff (l m : nat) (sine : bool) (c : comp) : F :=
  let s := if sine then 1%nat else 0%nat in
  let nrm := harmonic_norm l m in
  fsum K (map (fun '(i, j, z) =>
    let ay := (2 * j + 2 * z + s)%nat in
    if Nat.leb ay (2 * i + m) then
      let ax := (2 * i + m - ay)%nat in
      let az := (l - 2 * i - m)%nat in
      if comp_eqb c (ax, ay, az) then expansion_coeff l m sine i j z * nrm else 0
    else 0) (triples l m)).

Definition comp_scale (l : nat) (c : comp) : F :=
  let '(ax, ay, az) := c in
  fsqrt K (fdf_odd K ax * fdf_odd K ay * fdf_odd K az) / fsqrt K (fdf_odd K l).

(* apply_from = "left": rows = spherical labels, columns = Cartesian components *)
Definition sph_transform (l : nat) (carts : list comp) (labels : list label) : list (list F) :=
  map (fun '(neg, sine, m) =>
    map (fun c => (if (neg : bool) then fopp K (f1 K) else f1 K) * harmonic_coeff l m sine c * comp_scale l c) carts)
    labels.

(* the matrix as used by the assemblies (entries pass through fapx: identity in theorems) *)
Definition shell_transform (s : shell F) : list (list F) :=
  map (map (fapx K)) (sph_transform (s_l s) (comps_of s) (labels_of s)).

End Spherical.
