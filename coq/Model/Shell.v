(* Model/Shell.v — the data of a GeneralizedContractionShell that the models use
   (gbasis/contractions.py): angular momentum, centre, exponents, the (K, M)
   coefficient matrix, coordinate type, and the component conventions. *)
From Coq Require Import List Arith Lia.
Import ListNotations.

Definition comp := (nat * nat * nat)%type.
Definition label := (bool * bool * nat)%type.     (* negated, sine, |m| : "-s2" = (true,true,2) *)

Record shell (F : Type) := mkShell {
  s_l : nat;
  s_x : F; s_y : F; s_z : F;
  s_exps : list F;
  s_coeffs : list (list F);       (* K rows, M columns *)
  s_sph : bool;                   (* coord_type = spherical *)
  s_comps : list comp;            (* [] = the default Cartesian component order *)
  s_labels : list label           (* [] = the default spherical order *)
}.
Arguments s_l {F}. Arguments s_x {F}. Arguments s_y {F}. Arguments s_z {F}.
Arguments s_exps {F}. Arguments s_coeffs {F}. Arguments s_sph {F}.
Arguments s_comps {F}. Arguments s_labels {F}.

(* contractions.py:379-385: x from l down to 0, y from l-x down to 0 *)
Definition default_comps (l : nat) : list comp :=
  flat_map (fun xx => let x := (l - xx)%nat in
    map (fun yy => let y := (l - x - yy)%nat in (x, y, (l - x - y)%nat)) (seq 0 (S (l - x))))
    (seq 0 (S l)).

(* contractions.py:425-432 *)
Definition default_labels (l : nat) : list label :=
  if Nat.eqb l 1 then [(false, false, 1%nat); (false, true, 1%nat); (false, false, 0%nat)]
  else map (fun k => (false, true, (l - k)%nat)) (seq 0 l)
       ++ map (fun m => (false, false, m)) (seq 0 (S l)).

Definition comps_of {F} (s : shell F) : list comp :=
  match s_comps s with [] => default_comps (s_l s) | c => c end.
Definition labels_of {F} (s : shell F) : list label :=
  match s_labels s with [] => default_labels (s_l s) | c => c end.
Definition nseg {F} (s : shell F) : nat := length (hd [] (s_coeffs s)).
