(* Model/OneBody.v — whole-basis models of the separable one-body integrals:
   kinetic_energy_integral, moment_integral, momentum_integral,
   angular_momentum_integral (public functions of gbasis/integrals/*.py built on
   BaseTwoIndexSymmetric).

   Momentum-type operators: the code's value is -i * R with R real; the model
   carries R.  The property (C08) demands Hermitian matrices, i.e. blocks below
   and on the diagonal are the CONJUGATE transposes of the evaluated upper
   blocks; [two_symm_blocks_h] takes the conjugation of an element as a
   parameter (identity for real symmetric operators, negation of R for the
   -i * R operators). *)
From Coq Require Import List Arith Lia Bool.
From GB Require Import Base.Field Base.FNum Base.Tables Model.Shell Model.MomentInt
  Model.DiffOp Model.OneElec Model.TwoElec Model.Spherical Model.Assembly Model.Assembly14 Model.Overlap.
Import ListNotations.

Section OneBody.
Context {F : Type} (K : Fops F).

(* vectors of field elements as an F-module (trailing axis of a block) *)
Definition vzero : list F := [].
Definition vadd (x y : list F) : list F :=
  match x, y with
  | [], _ => y
  | _, [] => x
  | _, _ => map (fun '(a, b) => fadd K a b) (combine x y)
  end.
Definition vscale (t : F) (x : list F) : list F := map (fmul K t) x.
Definition vneg (x : list F) : list F := map (fopp K) x.

Section Herm.
Context {A : Type} (azero : A) (aadd : A -> A -> A) (ascale : F -> A -> A) (aconj : A -> A).
Variable blockf : shell F -> shell F -> list (list (list (list A))).

(* base_two_symm.py:171-181 with the mirrored blocks conjugated: blocks with
   i < j are evaluated; blocks with i >= j are conj(transpose(block j i)) *)
Definition two_symm_blocks_h (n : nat) (bf : nat -> nat -> list (list A)) : list (list A) :=
  vcat (mk n (fun i => hcat (mk n (fun j =>
    if Nat.ltb i j then bf i j else map (map aconj) (transpose azero (bf j i)))))).

Definition two_symm_integral_h (basis : list (shell F)) (T : option (list (list F))) : list (list A) :=
  let ps := map (prep K) basis in
  let n := length ps in
  let tbl := mk n (fun i => mk n (fun j =>
               if Nat.leb i j
               then pblock K azero aadd ascale blockf (nth i ps (dummy_p K)) (nth j ps (dummy_p K))
               else [])) in
  let m := two_symm_blocks_h n (fun i j => nth j (nth i tbl []) []) in
  match T with None => m | Some t => lincomb2 azero aadd ascale t t m end.
End Herm.

Definition kinetic_integral (basis : list (shell F)) (T : option (list (list F))) : list (list F) :=
  two_symm_integral K (f0 K) (fadd K) (fmul K) (kinetic_block K) basis T.

Definition moment_integral (Cx Cy Cz : F) (orders : list comp) (basis : list (shell F))
           (T : option (list (list F))) : list (list (list F)) :=
  two_symm_integral K vzero vadd vscale (moment_block K Cx Cy Cz orders) basis T.

Definition momentum_integral_re (basis : list (shell F)) (T : option (list (list F))) :=
  two_symm_integral_h vzero vadd vscale vneg (momentum_block_re K) basis T.

Definition angmom_integral_re (basis : list (shell F)) (T : option (list (list F))) :=
  two_symm_integral_h vzero vadd vscale vneg (angmom_block_re K) basis T.

(* point_charge.py:268-323 and nuclear_electron_attraction.py:39-42 *)
Definition point_charge_integral (points : list (F * F * F * F)) (basis : list (shell F))
           (T : option (list (list F))) : list (list (list F)) :=
  two_symm_integral K vzero vadd vscale (point_charge_block K points) basis T.
Definition nuclear_attraction_integral (points : list (F * F * F * F)) (basis : list (shell F))
           (T : option (list (list F))) : list (list F) :=
  map (map (FNum.fsum K)) (point_charge_integral points basis T).

(* electron_repulsion.py:206-273: four-index symmetric assembly (base_four_symm.py, model
   Assembly14.four_symm), optional transform on all four indices, physicist = middle indices exchanged *)
Definition eri_integral (basis : list (shell F)) (T : option (list (list F))) (physicist : bool)
  : list (list (list (list F))) :=
  let ps := map (prep K) basis in
  let ss := map (fun p => mkSh (s_sph (p_shell p)) (p_T p) (p_norm p)) ps in
  let d := dummy_p K in
  let chem := four_symm (f0 K) (fadd K) (fmul K) 2 ss (fun i j k l =>
      eri_block K (p_shell (nth i ps d)) (p_shell (nth j ps d)) (p_shell (nth k ps d))
                  (p_shell (nth l ps d))) in
  let arr := match T with None => chem | Some t => lincomb4 (f0 K) (fadd K) (fmul K) t chem end in
  if physicist then swapax (f0 K) 1 2 arr else arr.

(* the pinned tree's behaviour (plain transposition), kept for the record of the defect *)
Definition momentum_integral_re_plain (basis : list (shell F)) (T : option (list (list F))) :=
  two_symm_integral K vzero vadd vscale (momentum_block_re K) basis T.

End OneBody.
