(* Model/Assembly14.v — the one-index and four-index assembly classes
   (gbasis/base_one.py, gbasis/base_four_symm.py) and a second, proof-oriented
   transcription of the two-index block processing (base_two_symm.py,
   base_two_asymm.py) built from the same per-axis step.

   Per-axis step.  Every class does, for each basis index of a shell block of
   shape (..., M, L, ...): multiply by norm_cont[m][c]; if the shell is
   spherical, tensordot with its transform along the component axis L and move
   the new axis back in place (the swapaxes chains after every tensordot only
   restore the axis order, e.g. base_four_symm.py:322-349); finally merge
   (M, L') into one axis, segment-major (np.concatenate(.., axis=0) in
   base_one.py:136,173,239, reshape in base_four_symm.py:207-213).
   [axis_tr] is "tensordot + restore order + merge" for one axis whose entries
   are elements of an arbitrary module X (X carries all the other axes).  The
   contractions of different axes act on different indices, so the order in
   which the model performs them (innermost axis first, for typing reasons)
   is not observable in exact arithmetic; the labelled-integer check compares
   the outcome with the code for every type pattern.

   What IS order-sensitive and is transcribed literally: the normalisation
   before the transforms, the loops over shells / unique pairs / unique pairs
   of pairs, the transposed lower triangle, the eight permuted writes with
   "last write wins" (base_four_symm.py:215-226), the nested concatenation. *)
From Coq Require Import List Arith Lia Bool.
From GB Require Import Base.Field Base.Tables Base.Blocks Model.Assembly.
Import ListNotations.

Section A14.
Context {F : Type} (K : Fops F).
Context {A : Type} (azero : A) (aadd : A -> A -> A) (ascale : F -> A -> A).

(* per-shell assembly data: coordinate type, transform (rows = spherical
   functions, columns = Cartesian components), norm_cont[m][c] *)
Record sh := mkSh { sh_sph : bool; sh_T : list (list F); sh_n : list (list F) }.

Section Axis.
Context {X : Type} (xzero : X) (xadd : X -> X -> X) (xscale : F -> X -> X).
(* blk[m][c] : X *)
Definition norm_axis (n : list (list F)) (blk : list (list X)) : list (list X) :=
  map2 (map2 xscale) n blk.
Definition axis_tr (sph : bool) (T : list (list F)) (blk : list (list X)) : list X :=
  concat (if sph then map (lin xzero xadd xscale T) blk else blk).
End Axis.

(* width of an axis after processing, from the shapes of norm_cont and T *)
Definition axis_width (sph : bool) (s : sh) : nat :=
  if sph then length (sh_n s) * length (sh_T s) else length (concat (sh_n s)).

(* ---------------- one index: base_one.py ---------------- *)
(* 112-137 *)
Definition one_cartesian (l : list (sh * list (list A))) : list A :=
  concat (map (fun '(s, b) => concat (norm_axis ascale (sh_n s) b)) l).
(* 139-177 *)
Definition one_spherical (l : list (sh * list (list A))) : list A :=
  concat (map (fun '(s, b) =>
    concat (map (lin azero aadd ascale (sh_T s)) (norm_axis ascale (sh_n s) b))) l).
(* 179-243 *)
Definition one_mix (l : list (sh * list (list A))) : list A :=
  concat (map (fun '(s, b) =>
    axis_tr azero aadd ascale (sh_sph s) (sh_T s) (norm_axis ascale (sh_n s) b)) l).
(* 245-294: dispatch on the types, then tensordot(transform, array, (1, 0)) *)
Definition one_lincomb (T : list (list F)) (l : list (sh * list (list A))) : list A :=
  let arr := if forallb (fun p => negb (sh_sph (fst p))) l then one_cartesian l
             else if forallb (fun p => sh_sph (fst p)) l then one_spherical l
             else one_mix l in
  lin azero aadd ascale T arr.

(* ---------------- two indices, per block ---------------- *)
Notation R1 := (list A).
Definition r1add := radd aadd.   Definition r1scale := rscale ascale.

(* base_two_symm.py:158-162 etc.: both norms first *)
Definition normalise2 (n1 n2 : list (list F)) (blk : list (list (list (list A)))) :=
  map2 (fun r1 b1 => map2 (fun x1 b2 => map2 (fun r2 b3 => map2 (fun x2 e =>
    ascale x2 (ascale x1 e)) r2 b3) n2 b2) r1 b1) n1 blk.

(* base_two_symm.py:312-339 / base_two_asymm.py:335-363 *)
Definition block2 (sph1 sph2 : bool) (s1 s2 : sh) (blk : list (list (list (list A)))) : list (list A) :=
  let b := normalise2 (sh_n s1) (sh_n s2) blk in
  let inner := map (map (axis_tr azero aadd ascale sph2 (sh_T s2))) b in
  axis_tr (rzero azero (axis_width sph2 s2)) r1add r1scale sph1 (sh_T s1) inner.

(* lincomb: tensordot on index 0, then on index 1 (base_two_symm.py:406-408) *)
Definition mat_left (T : list (list F)) (m : list (list A)) : list (list A) :=
  lin (rzero azero (length (hd [] m))) r1add r1scale T m.
Definition mat_right (T : list (list F)) (m : list (list A)) : list (list A) :=
  map (lin azero aadd ascale T) m.
Definition lincomb2n (T1 T2 : option (list (list F))) (m : list (list A)) : list (list A) :=
  let m := match T1 with Some t => mat_left t m | None => m end in
  match T2 with Some t => mat_right t m | None => m end.

(* base_two_symm.py:171-181: the evaluated blocks i <= j go to the upper triangle;
   EVERY block of np.tril_indices, the diagonal ones included, is then overwritten
   by the transposed block of the mirrored position.  (After the repair of the
   Hermitian defect the code conjugates the mirrored block, np.conj(np.swapaxes(..));
   conjugation is the identity on the real / integer entries this model is run on
   and commutes with the real transforms, so it is not represented here.) *)
Definition two_symm_blocks_t (n : nat) (bf : nat -> nat -> list (list A)) : list (list A) :=
  vcat (mk n (fun i => hcat (mk n (fun j =>
    if Nat.ltb i j then bf i j else transpose azero (bf j i))))).

Definition two_symm_n (mode : nat) (ss : list sh) (bf : nat -> nat -> list (list (list (list A)))) :=
  let d := mkSh false [] [] in
  let ty s := match mode with 0 => false | 1 => true | _ => sh_sph s end in
  two_symm_blocks_t (length ss) (fun i j =>
    let s1 := nth i ss d in let s2 := nth j ss d in block2 (ty s1) (ty s2) s1 s2 (bf i j)).
Definition two_asymm_n (mode : nat) (ss1 ss2 : list sh) (bf : nat -> nat -> list (list (list (list A)))) :=
  let d := mkSh false [] [] in
  let ty s := match mode with 0 => false | 1 => true | _ => sh_sph s end in
  two_asymm_blocks (length ss1) (length ss2) (fun i j =>
    let s1 := nth i ss1 d in let s2 := nth j ss2 d in block2 (ty s1) (ty s2) s1 s2 (bf i j)).

(* ---------------- four indices: base_four_symm.py ---------------- *)
Notation R2 := (list (list A)).
Notation R3 := (list (list (list A))).
Notation R4 := (list (list (list (list A)))).
Definition r2add := radd r1add.  Definition r2scale := rscale r1scale.
Definition r3add := radd r2add.  Definition r3scale := rscale r2scale.

(* 196-205: the four norms, one after the other *)
Definition normalise4 (n1 n2 n3 n4 : list (list F)) (blk : list (list (list (list R4)))) :=
  map2 (fun r1 b1 => map2 (fun x1 b2 => map2 (fun r2 b3 => map2 (fun x2 b4 =>
  map2 (fun r3 b5 => map2 (fun x3 b6 => map2 (fun r4 b7 => map2 (fun x4 e =>
    ascale x4 (ascale x3 (ascale x2 (ascale x1 e)))) r4 b7) n4 b6) r3 b5) n3 b4) r2 b3) n2 b2) r1 b1) n1 blk.

(* 456-526: normalise, per-index transform of the spherical shells, merge (M, L) *)
Definition block4 (t1 t2 t3 t4 : bool) (s1 s2 s3 s4 : sh) (blk : list (list (list (list R4)))) : R4 :=
  let b := normalise4 (sh_n s1) (sh_n s2) (sh_n s3) (sh_n s4) blk in
  let w4 := axis_width t4 s4 in let w3 := axis_width t3 s3 in let w2 := axis_width t2 s2 in
  let z1 := rzero azero w4 in let z2 := rzero z1 w3 in let z3 := rzero z2 w2 in
  let b4 := map (map (map (map (map (map (axis_tr azero aadd ascale t4 (sh_T s4))))))) b in
  let b3 := map (map (map (map (axis_tr z1 r1add r1scale t3 (sh_T s3))))) b4 in
  let b2 := map (map (axis_tr z2 r2add r2scale t2 (sh_T s2))) b3 in
  axis_tr z3 r3add r3scale t1 (sh_T s1) b2.

(* np.swapaxes on a 4-axis array *)
Definition get4 (b : R4) (i0 i1 i2 i3 : nat) : A :=
  nth i3 (nth i2 (nth i1 (nth i0 b []) []) []) azero.
Definition dims4 (b : R4) : list nat :=
  [length b; length (hd [] b); length (hd [] (hd [] b)); length (hd [] (hd [] (hd [] b)))].
Definition swapl {B} (a b : nat) (l : list B) (d : B) : list B :=
  mk (length l) (fun k => if Nat.eqb k a then nth b l d else if Nat.eqb k b then nth a l d else nth k l d).
Definition swapax (a b : nat) (blk : R4) : R4 :=
  let ds := swapl a b (dims4 blk) 0 in
  mk (nth 0 ds 0) (fun x0 => mk (nth 1 ds 0) (fun x1 => mk (nth 2 ds 0) (fun x2 => mk (nth 3 ds 0) (fun x3 =>
    let ix := swapl a b [x0; x1; x2; x3] 0 in
    get4 blk (nth 0 ix 0) (nth 1 ix 0) (nth 2 ix 0) (nth 3 ix 0))))).

(* it.combinations_with_replacement(range(n), 2) *)
Definition pairs (n : nat) : list (nat * nat) :=
  flat_map (fun i => map (fun j => (i, j)) (seq i (n - i))) (seq 0 n).
Fixpoint tails {B} (l : list B) : list (list B) :=
  match l with [] => [] | x :: r => (x :: r) :: tails r end.

Definition key := (nat * nat * nat * nat)%type.
Definition key_eqb (x y : key) : bool :=
  let '(a, b, c, d) := x in let '(a', b', c', d') := y in
  Nat.eqb a a' && Nat.eqb b b' && Nat.eqb c c' && Nat.eqb d d'.

(* 528-539: the eight writes of one (i,j,k,l) iteration, in the code's order *)
Definition writes8 (i j k l : nat) (blk : R4) : list (key * R4) :=
  [ ((i, j, k, l), blk);
    ((i, j, l, k), swapax 2 3 blk);
    ((j, i, k, l), swapax 0 1 blk);
    ((j, i, l, k), swapax 0 1 (swapax 2 3 blk));
    ((k, l, i, j), swapax 0 2 (swapax 1 3 blk));
    ((l, k, i, j), swapax 0 1 (swapax 0 2 (swapax 1 3 blk)));
    ((k, l, j, i), swapax 2 3 (swapax 0 2 (swapax 1 3 blk)));
    ((l, k, j, i), swapax 0 3 (swapax 1 2 blk)) ].

(* 434-539: loop over unique pairs of pairs; the store is an association list
   in which a later write shadows an earlier one *)
Definition all_writes (n : nat) (bf : nat -> nat -> nat -> nat -> R4) : list (key * R4) :=
  flat_map (fun tl => match tl with
    | [] => []
    | (i, j) :: _ => flat_map (fun '(k, l) => writes8 i j k l (bf i j k l)) tl
    end) (tails (pairs n)).
Definition lookup (store : list (key * R4)) (x : key) : R4 :=
  match find (fun p => key_eqb (fst p) x) (rev store) with Some p => snd p | None => [] end.

(* 542-557: nested concatenation along axes 3, 2, 1, 0 *)
Fixpoint zipw {B} (cat2 : B -> B -> B) (ms : list (list B)) : list B :=
  match ms with
  | [] => []
  | [m] => m
  | m :: rest => map2 cat2 m (zipw cat2 rest)
  end.
Definition cat3 (bs : list R4) : R4 := zipw (map2 (map2 (@app A))) bs.
Definition cat2 (bs : list R4) : R4 := zipw (map2 (@app (list A))) bs.
Definition cat1 (bs : list R4) : R4 := zipw (@app (list (list A))) bs.
Definition four_concat (n : nat) (cell : nat -> nat -> nat -> nat -> R4) : R4 :=
  concat (mk n (fun i => cat1 (mk n (fun j => cat2 (mk n (fun k => cat3 (mk n (fun l => cell i j k l)))))))).

Definition four_symm (mode : nat) (ss : list sh)
           (bf : nat -> nat -> nat -> nat -> list (list (list (list R4)))) : R4 :=
  let d := mkSh false [] [] in
  let ty s := match mode with 0 => false | 1 => true | _ => sh_sph s end in
  let n := length ss in
  let store := all_writes n (fun i j k l =>
    let s1 := nth i ss d in let s2 := nth j ss d in let s3 := nth k ss d in let s4 := nth l ss d in
    block4 (ty s1) (ty s2) (ty s3) (ty s4) s1 s2 s3 s4 (bf i j k l)) in
  four_concat n (fun i j k l => lookup store (i, j, k, l)).

(* 611-615: T on each of the four indices *)
Definition lincomb4 (T : list (list F)) (m : R4) : R4 :=
  let d1 := length (hd [] m) in let d2 := length (hd [] (hd [] m)) in
  let d3 := length (hd [] (hd [] (hd [] m))) in
  let m0 := lin (rzero (rzero (rzero azero d3) d2) d1) r3add r3scale T m in
  let m1 := map (lin (rzero (rzero azero d3) d2) r2add r2scale T) m0 in
  let m2 := map (map (lin (rzero azero d3) r1add r1scale T)) m1 in
  map (map (map (lin azero aadd ascale T))) m2.

End A14.
