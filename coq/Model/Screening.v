(* Model/Screening.v — model of the overlap screening of gbasis/integrals/overlap.py.

   [is_screened]            is_integral_screened               (overlap.py:173-218)
   [overlap_block_screened] Overlap.construct_array_contraction with tol_screen (overlap.py:99-126)
   [overlap_integral_screened] overlap_integral(basis, transform, tol_screen)  (overlap.py:162-170;
                            the tolerance is forwarded unchanged through every assembly path, which
                            all end in base_two_symm's triangle loop = [two_symm_integral]).

   The code compares   |R_b - R_a|  >  sqrt( -(a+b)/(a*b) * ln tol )   with a = min(exps_one),
   b = min(exps_two).  To stay exact the model compares the SQUARES,
        d2 > rad,   d2 = |R_b - R_a|^2,   rad = -(a+b)/(a*b) * ln tol,
   which is the same decision whenever rad >= 0 (proved over the reals in Proofs/ScreeningP.v,
   [screened_iff_documented]).  Outside the documented range of the tolerance the code's
   floating-point semantics are mirrored as follows (none of it is used by property C20, whose
   tolerances lie in [1e-16, 0.5]):
     * rad < 0 (tol > 1 with positive exponents): np.sqrt gives nan, `norm > nan` is False: not screened;
     * tol <= 0: np.log gives -inf (cutoff +inf) or nan: not screened.
   ln tol is the oracle value [fln K tol] (a dyadic approximation in execution, the real
   logarithm in the theorems), so decisions within a tiny relative distance of the cutoff are
   "either answer" cases for the correspondence check (harness/c20.py).
   A bool given as tolerance is rejected by the code (overlap.py:206-207); the model's tolerance is
   an [option F], a bool is not representable: the harness expects `rejected`. *)
From Coq Require Import List Arith Lia Bool.
From GB Require Import Base.Field Base.FNum Base.Tables Model.Shell Model.MomentInt
  Model.Spherical Model.Assembly Model.Overlap.
Import ListNotations.

Section Screening.
Context {F : Type} (K : Fops F).
Local Open Scope F_scope.
Notation "0" := (f0 K) : F_scope.
Notation "1" := (f1 K) : F_scope.
Infix "+" := (fadd K) : F_scope.
Infix "*" := (fmul K) : F_scope.
Infix "-" := (fsub K) : F_scope.
Infix "/" := (fdiv K) : F_scope.
Notation "- x" := (fopp K x) : F_scope.

(* Python's min() over the exponent array: the first smallest element (overlap.py:214-215);
   0 for an empty list (the code would raise; shells always have >= 1 primitive) *)
Definition fmin2 (m y : F) : F := if fleb K m y then m else y.
Definition fmin_list (l : list F) : F :=
  match l with [] => 0 | x :: r => fold_left fmin2 r x end.

Definition min_exp (s : shell F) : F := fmin_list (s_exps s).

(* |R_two - R_one|^2  (overlap.py:216, squared) *)
Definition dist2 (sa sb : shell F) : F :=
  let dx := s_x sb - s_x sa in let dy := s_y sb - s_y sa in let dz := s_z sb - s_z sa in
  dx * dx + dy * dy + dz * dz.

(* the radicand of overlap.py:217, i.e. cutoff^2 *)
Definition cutoff2 (tol : F) (sa sb : shell F) : F :=
  let aa := min_exp sa in let ab := min_exp sb in
  - (aa + ab) / (aa * ab) * fln K tol.

Definition is_screened (tol : option F) (sa sb : shell F) : bool :=
  match tol with
  | None => false                                        (* overlap.py:210-211 *)
  | Some t =>
      if fleb K t 0 then false                           (* log of a non-positive number: inf / nan *)
      else
        let rad := cutoff2 t sa sb in
        if fleb K 0 rad then negb (fleb K (dist2 sa sb) rad)   (* d2 > rad *)
        else false                                       (* sqrt of a negative number: nan *)
  end.

(* np.zeros((M_1, L_1, M_2, L_2))  (overlap.py:101-108) *)
Definition zero_block (sa sb : shell F) : list (list (list (list F))) :=
  mk (nseg sa) (fun _ => mk (length (comps_of sa)) (fun _ =>
    mk (nseg sb) (fun _ => mk (length (comps_of sb)) (fun _ => 0)))).

Definition overlap_block_screened (tol : option F) (sa sb : shell F) :=
  if is_screened tol sa sb then zero_block sa sb else overlap_block K sa sb.

(* The contraction norms come from the shells' own unscreened overlap (contractions.py:503-524
   calls Overlap.construct_array_contraction(self, self) without a tolerance), hence [prep] /
   [norm_cont] of Model/Overlap.v are reused unchanged. *)
Definition overlap_integral_screened (basis : list (shell F)) (T : option (list (list F)))
           (tol : option F) : list (list F) :=
  two_symm_integral K 0 (fadd K) (fmul K) (overlap_block_screened tol) basis T.

End Screening.
