(* Model/Effects.v — property C19: an executable state machine saying what "calls are pure" means.

   WORLD   = the contents of every object a caller can hand to gbasis (arrays, Python lists / tuples /
             dicts, as plain data [val]), every shell (its five parameters and its CACHED norm_cont),
             and the process-wide numpy error state (np.geterr() + np.geterrcall()).  Nothing else.
   OPS     = a public call (any function, any arguments: whether it returns or raises is up to the
             abstract [result_of]), a parameter update through a shell's property setter
             (contractions.py:198-221, 237-259, 273-298, 314-358, 538-571), assign_norm_cont
             (contractions.py:503-524), and the USER changing the error state (np.seterr).
   STEP    : a public call leaves the world as it was and its outcome is [result_of] applied to the
             function, the caller's error state and the VALUES of the arguments; an accepted update
             replaces exactly one parameter and leaves norm_cont STALE (the code refreshes it only in
             assign_norm_cont and in __init__, contractions.py:144-150); assign_norm_cont stores
             [norm_of] of the current parameters.

   What this model CANNOT exhibit: aliasing.  Objects are values here; the NumPy views / in-place `*=` on
   blocks (base_one.py:132-134, base_two_symm.py:157-162, base_four_symm.py:192-205), `pop(0)` on the
   caller's list (parsers.py:235-246) and the seterr/restore pair (electrostatic_potential.py:146-154)
   are exactly the places where the implementation could leave this model.  That the implementation
   conforms is OBSERVED by the monitor (harness/c19.py), which runs this model and the library on the same
   histories; it is not proved.  The theorems (Proofs/EffectsP.v, Props/C19.v) are about the model: they
   spell out, for all histories, the consequences the monitor is entitled to expect. *)
From Coq Require Import ZArith List Bool.
Import ListNotations.
Open Scope Z_scope.

(* ------------------------------------------------------------------------------------------------ *)
(* values: integers, rationals (floats are dyadic rationals), nested lists.  The harness encodes        *)
(*   None (0) | str (1 id) | bool (2 b) | list (3 ..) | tuple (4 ..) | ndarray (5 dtype (shape) data)   *)
(*   | dict (6 (k v) ..) | reference to shell i (7 i); dtype 0 = float64, 1 = int64, 2 = other          *)
(* ------------------------------------------------------------------------------------------------ *)
Inductive val := VZ (z : Z) | VQ (n : Z) (d : positive) | VL (l : list val).

Section ListEqb.
  Context {A : Type} (f : A -> A -> bool).
  Fixpoint list_eqb (l k : list A) : bool :=
    match l, k with
    | [], [] => true
    | x :: l', y :: k' => f x y && list_eqb l' k'
    | _, _ => false
    end.
End ListEqb.

Fixpoint val_eqb (a b : val) : bool :=
  match a, b with
  | VZ x, VZ y => Z.eqb x y
  | VQ n d, VQ m e => Z.eqb n m && Pos.eqb d e
  | VL l, VL k => list_eqb val_eqb l k
  | _, _ => false
  end.

Fixpoint to_float (v : val) : val :=          (* ndarray.astype(float) on the data of an int array *)
  match v with
  | VZ z => VQ z 1
  | VQ _ _ => v
  | VL l => VL (map to_float l)
  end.

Definition arr (dt : Z) (shape : list val) (data : val) : val := VL [VZ 5; VZ dt; VL shape; data].
Definition as_arr (v : val) : option (Z * list val * val) :=
  match v with
  | VL [VZ 5; VZ dt; VL shape; data] => Some (dt, shape, data)
  | _ => None
  end.
Definition dim (v : val) : Z := match v with VZ z => z | _ => 0 end.
Definition size_of (shape : list val) : Z := fold_right (fun d acc => dim d * acc) 1 shape.
Definition shape_eqb (a b : list val) : bool := list_eqb val_eqb a b.
Definition first_dim (shape : list val) : Z := match shape with d :: _ => dim d | [] => -1 end.

(* ------------------------------------------------------------------------------------------------ *)
(* the process-wide numpy error state: four modes and the error callback                                *)
(* ------------------------------------------------------------------------------------------------ *)
Inductive mode := Ignore | Warn | Raise | CallM | Print | Log.
Record errstate := mkErr { e_divide : mode; e_over : mode; e_under : mode; e_invalid : mode; e_call : Z }.

Definition mode_eqb (a b : mode) : bool :=
  match a, b with
  | Ignore, Ignore | Warn, Warn | Raise, Raise | CallM, CallM | Print, Print | Log, Log => true
  | _, _ => false
  end.
Definition err_eqb (a b : errstate) : bool :=
  mode_eqb (e_divide a) (e_divide b) && mode_eqb (e_over a) (e_over b) && mode_eqb (e_under a) (e_under b)
  && mode_eqb (e_invalid a) (e_invalid b) && Z.eqb (e_call a) (e_call b).
Definition set_divide (m : mode) (e : errstate) : errstate :=
  mkErr m (e_over e) (e_under e) (e_invalid e) (e_call e).

(* ------------------------------------------------------------------------------------------------ *)
(* shells and the world                                                                                 *)
(* ------------------------------------------------------------------------------------------------ *)
Record shell := mkShell { s_angmom : val; s_coord : val; s_exps : val; s_coeffs : val; s_ctype : val;
                          s_norm : val (* the cached norm_cont *) }.
Record world := mkWorld { w_objs : list val; w_shells : list shell; w_err : errstate }.

Definition with_err (w : world) (e : errstate) : world := mkWorld (w_objs w) (w_shells w) e.
Definition with_shells (w : world) (s : list shell) : world := mkWorld (w_objs w) s (w_err w).

Definition shell_val (s : shell) : val :=
  VL [s_angmom s; s_coord s; s_exps s; s_coeffs s; s_ctype s; s_norm s].
Definition shell_eqb (a b : shell) : bool := val_eqb (shell_val a) (shell_val b).
Definition world_eqb (a b : world) : bool :=
  list_eqb val_eqb (w_objs a) (w_objs b) && list_eqb shell_eqb (w_shells a) (w_shells b)
  && err_eqb (w_err a) (w_err b).

Fixpoint replace {A} (n : nat) (x : A) (l : list A) : list A :=
  match n, l with
  | _, [] => []
  | O, _ :: r => x :: r
  | S n', y :: r => y :: replace n' x r
  end.

(* the value an argument denotes: references to shells inside containers are followed, so that the value
   of a basis is the list of the values of its shells (incl. their cached norm_cont) *)
Definition is_ref (l : list val) : option Z :=
  match l with [VZ 7; VZ i] => Some i | _ => None end.
Fixpoint resolve (sh : list shell) (v : val) : val :=
  match v with
  | VL l =>
      match is_ref l with
      | Some i => match nth_error sh (Z.to_nat i) with
                  | Some s => VL [VZ 7; shell_val s]
                  | None => v
                  end
      | None => VL (map (resolve sh) l)
      end
  | _ => v
  end.

Inductive arg := AObj (i : nat) | AImm (v : val).
Definition arg_value (w : world) (a : arg) : val :=
  match a with
  | AObj i => resolve (w_shells w) (nth i (w_objs w) (VL []))
  | AImm v => v
  end.

Inductive field := FAngmom | FCoord | FExps | FCoeffs | FCtype.
Inductive op :=
| Call (f : Z) (args : list arg)
| Update (s : nat) (fld : field) (v : val)
| AssignNorm (s : nat)
| SetErr (e : errstate).

Inductive result := Returned (v : val) | Raised.
Inductive outcome := OCall (r : result) | OAccepted | ORejected.

(* ------------------------------------------------------------------------------------------------ *)
(* the property setters of GeneralizedContractionShell: None = the setter raises                        *)
(* ------------------------------------------------------------------------------------------------ *)
Definition set_angmom (s : shell) (v : val) : option shell :=      (* contractions.py:255-259 *)
  match v with
  | VZ z => if 0 <=? z then Some (mkShell v (s_coord s) (s_exps s) (s_coeffs s) (s_ctype s) (s_norm s))
            else None
  | _ => None
  end.

Definition set_coord (s : shell) (v : val) : option shell :=       (* contractions.py:214-221 *)
  match as_arr v with
  | Some (dt, shape, data) =>
      if (size_of shape =? 3) && ((dt =? 0) || (dt =? 1))
      then Some (mkShell (s_angmom s) (arr 0 shape (to_float data)) (s_exps s) (s_coeffs s) (s_ctype s)
                         (s_norm s))
      else None
  | None => None
  end.

Definition rows_of (coeffs : val) : Z :=
  match as_arr coeffs with Some (_, shape, _) => first_dim shape | None => -1 end.
Definition shape_of (a : val) : list val :=
  match as_arr a with Some (_, shape, _) => shape | None => [] end.

Definition set_exps (s : shell) (v : val) : option shell :=        (* contractions.py:290-298 *)
  match as_arr v with
  | Some (dt, shape, data) =>
      if (dt =? 0) && (rows_of (s_coeffs s) =? size_of shape)
      then Some (mkShell (s_angmom s) (s_coord s) v (s_coeffs s) (s_ctype s) (s_norm s))
      else None
  | None => None
  end.

Definition column (data : val) : val :=                           (* coeffs[:, np.newaxis], :355-356 *)
  match data with VL l => VL (map (fun x => VL [x]) l) | _ => data end.

Definition set_coeffs (s : shell) (v : val) : option shell :=      (* contractions.py:339-358 *)
  match as_arr v with
  | Some (dt, shape, data) =>
      if negb (dt =? 0) then None else
      match shape with
      | [k] =>
          if shape_eqb shape (shape_of (s_exps s))
          then Some (mkShell (s_angmom s) (s_coord s) (s_exps s) (arr 0 [k; VZ 1] (column data)) (s_ctype s)
                             (s_norm s))
          else None
      | [k; m] =>
          if dim k =? first_dim (shape_of (s_exps s))
          then Some (mkShell (s_angmom s) (s_coord s) (s_exps s) v (s_ctype s) (s_norm s))
          else None
      | _ => None
      end
  | None => None
  end.

Definition set_ctype (s : shell) (v : val) : option shell :=       (* contractions.py:559-571 *)
  match v with
  | VL [VZ 1; VZ id] =>                 (* a str; ids 0 "c", 1 "cartesian", 2 "p", 3 "spherical" *)
      if (0 <=? id) && (id <=? 3)
      then Some (mkShell (s_angmom s) (s_coord s) (s_exps s) (s_coeffs s)
                         (VL [VZ 1; VZ (if id <=? 1 then 1 else 3)]) (s_norm s))
      else None
  | _ => None
  end.

Definition setter (fld : field) : shell -> val -> option shell :=
  match fld with
  | FAngmom => set_angmom | FCoord => set_coord | FExps => set_exps | FCoeffs => set_coeffs
  | FCtype => set_ctype
  end.

(* ------------------------------------------------------------------------------------------------ *)
(* the machine, for ANY deterministic library: [result_of], [norm_of], [window] are parameters          *)
(* ------------------------------------------------------------------------------------------------ *)
Section Machine.
  (* what public function [f] computes from the caller's error state and the values of its arguments *)
  Variable result_of : Z -> errstate -> list val -> result.
  (* the normalisation constants of a shell with the given angmom, coord, exps, coeffs *)
  Variable norm_of : val -> val -> val -> val -> val.
  (* the error state in force while [f] computes (electrostatic_potential switches divide off, :146) *)
  Variable window : Z -> errstate -> errstate.

  Definition renorm (s : shell) : shell :=                          (* contractions.py:503-524 *)
    mkShell (s_angmom s) (s_coord s) (s_exps s) (s_coeffs s) (s_ctype s)
            (norm_of (s_angmom s) (s_coord s) (s_exps s) (s_coeffs s)).

  (* GeneralizedContractionShell(...): parameters assigned, then assign_norm_cont (contractions.py:144-150) *)
  Definition construct (a c e k t : val) : shell := renorm (mkShell a c e k t (VL [])).

  Definition step (w : world) (o : op) : world * outcome :=
    match o with
    | Call f args =>
        let old := w_err w in
        let w1 := with_err w (window f old) in                    (* state switched on entry ... *)
        (* the outcome is a function of the CALLER's error state (part of a function may run before the
           window opens: point_charge_integral in electrostatic_potential.py:139) and the argument values *)
        let r := result_of f old (map (arg_value w1) args) in
        (with_err w1 old, OCall r)                                 (* ... and put back, returning or raising *)
    | Update s fld v =>
        match nth_error (w_shells w) s with
        | Some sh =>
            match setter fld sh v with
            | Some sh' => (with_shells w (replace s sh' (w_shells w)), OAccepted)
            | None => (w, ORejected)                               (* the setter raised: nothing assigned *)
            end
        | None => (w, ORejected)
        end
    | AssignNorm s =>
        match nth_error (w_shells w) s with
        | Some sh => (with_shells w (replace s (renorm sh) (w_shells w)), OAccepted)
        | None => (w, ORejected)
        end
    | SetErr e => (with_err w e, OAccepted)
    end.

  Fixpoint exec (w : world) (ops : list op) : world * list outcome :=
    match ops with
    | [] => (w, [])
    | o :: r => let '(w1, x) := step w o in let '(w2, xs) := exec w1 r in (w2, x :: xs)
    end.

  (* the trace the monitor compares with: per op the outcome and whether the world changed *)
  Fixpoint trace (w : world) (ops : list op) : list (outcome * bool) :=
    match ops with
    | [] => []
    | o :: r => let '(w1, x) := step w o in (x, negb (world_eqb w w1)) :: trace w1 r
    end.
End Machine.

(* ------------------------------------------------------------------------------------------------ *)
(* the executable instance: the FREE interpretation.  result_of / norm_of build the term that names     *)
(* their arguments, so two outcomes are equal here iff they are equal for every deterministic library. *)
(* ------------------------------------------------------------------------------------------------ *)
Definition mode_code (m : mode) : Z :=
  match m with Ignore => 0 | Warn => 1 | Raise => 2 | CallM => 3 | Print => 4 | Log => 5 end.
Definition mode_of_code (z : Z) : mode :=
  match z with 0 => Ignore | 1 => Warn | 2 => Raise | 3 => CallM | 4 => Print | _ => Log end.
Definition err_val (e : errstate) : val :=
  VL [VZ (mode_code (e_divide e)); VZ (mode_code (e_over e)); VZ (mode_code (e_under e));
      VZ (mode_code (e_invalid e)); VZ (e_call e)].

Definition ESP : Z := 20.   (* index of electrostatic_potential in the harness's function table *)
Definition result_free (f : Z) (e : errstate) (vals : list val) : result :=
  Returned (VL [VZ f; err_val e; VL vals]).
Definition norm_free (a c e k : val) : val := VL [a; c; e; k].
Definition window_exec (f : Z) (e : errstate) : errstate :=
  if f =? ESP then set_divide Ignore e else e.                     (* electrostatic_potential.py:146 *)

Definition result_eqb (a b : result) : bool :=
  match a, b with
  | Returned x, Returned y => val_eqb x y
  | Raised, Raised => true
  | _, _ => false
  end.
Definition outcome_eqb (a b : outcome) : bool :=
  match a, b with
  | OCall x, OCall y => result_eqb x y
  | OAccepted, OAccepted | ORejected, ORejected => true
  | _, _ => false
  end.

(* index of the first outcome equal to [x] in [l] (or [length l]) *)
Fixpoint first_index (x : outcome) (l : list outcome) : nat :=
  match l with
  | [] => O
  | y :: r => if outcome_eqb y x then O else S (first_index x r)
  end.

(* per op: kind (0 call, 1 rejected, 2 accepted), index of the first op with the same call outcome (its own
   index for non-calls), world changed *)
Fixpoint predict_ops (i : nat) (seen : list outcome) (tr : list (outcome * bool)) : list (Z * nat * bool) :=
  match tr with
  | [] => []
  | (x, ch) :: r =>
      let entry :=
        match x with
        | OCall _ => (0, first_index x (seen ++ [x]), ch)
        | ORejected => (1, i, ch)
        | OAccepted => (2, i, ch)
        end in
      entry :: predict_ops (S i) (seen ++ [x]) r
  end.

Definition fresh (s : shell) : bool :=
  val_eqb (s_norm s) (norm_free (s_angmom s) (s_coord s) (s_exps s) (s_coeffs s)).

Definition predict (w : world) (ops : list op) : list (Z * nat * bool) * world * list bool :=
  let wf := fst (exec result_free norm_free window_exec w ops) in
  (predict_ops O [] (trace result_free norm_free window_exec w ops), wf, map fresh (w_shells wf)).
