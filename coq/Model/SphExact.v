(* Model/SphExact.v — EXACT model of gbasis/spherical.py generate_transformation
   (spherical.py:229-340), of the default Cartesian component order and of the
   default spherical label order (contractions.py:360-432, the latter two are
   [default_comps] / [default_labels] of Model/Shell.v).

   Every entry of the Cartesian->spherical matrix is r * sqrt q with r, q
   rational; the model returns the pair (r, q) : [surd].  All arithmetic is in
   the canonical rationals [Qc] (Leibniz equality, [ring] available); integers
   (factorials, binomials, double factorials) are computed in [Z], never in a
   unary [nat].

   Labels are *strings* as in the code; the model accepts exactly the four
   documented forms  c{m}  s{m}  -c{m}  -s{m}  (m a canonical decimal numeral,
   0 <= m <= l for c, 1 <= m <= l for s) and returns [None] (= rejected) for
   anything else, for a wrong count, for a repeated / missing function, and
   for a Cartesian order that is not a rearrangement of the components of the
   shell.  This is the behaviour the property demands; the code's validation
   (spherical.py:299-312) strips every '-' first — see the harness for the
   consequences. *)
From Coq Require Import List Arith Lia Bool ZArith NArith QArith Qcanon.
From Coq Require Import String Ascii DecimalString.
From GB Require Import Model.Shell.
Import ListNotations.
Local Open Scope list_scope.

(* ------------------------------------------------------------------ *)
(* numbers                                                             *)
(* ------------------------------------------------------------------ *)
Definition zq (z : Z) : Qc := Q2Qc (inject_Z z).
Definition nq (n : nat) : Qc := zq (Z.of_nat n).

(* n! *)
Fixpoint zfact (n : nat) : Z :=
  match n with O => 1%Z | S k => (Z.of_nat n * zfact k)%Z end.
(* (2n-1)!! with (-1)!! = 1: utils.factorial2(2n-1) *)
Fixpoint zdf_odd (n : nat) : Z :=
  match n with O => 1%Z | S k => (Z.of_nat (2 * k + 1) * zdf_odd k)%Z end.
(* scipy.special.comb(n, k): 0 when k > n *)
Definition zbinom (n k : nat) : Z :=
  if Nat.leb k n then (zfact n / (zfact k * zfact (n - k)))%Z else 0%Z.
Definition zneg1pow (n : nat) : Z := if Nat.even n then 1%Z else (-1)%Z.

(* a number r * sqrt q  (q >= 0); a zero entry has r = 0 and any q *)
Definition surd := (Qc * Qc)%type.
Definition s_of_q (r : Qc) : surd := (r, 1%Qc).
Definition s_sqrt (q : Qc) : surd := (1%Qc, q).
Definition smul (a b : surd) : surd := ((fst a * fst b)%Qc, (snd a * snd b)%Qc).
Definition sdiv_sqrt (a : surd) (q : Qc) : surd := (fst a, (snd a / q)%Qc).
Definition sneg (b : bool) (s : surd) : surd :=
  ((if b then (- (1))%Qc else 1%Qc) * fst s, snd s)%Qc.
Definition surd_eqb (a b : surd) : bool :=
  Qc_eq_bool (fst a) (fst b) && Qc_eq_bool (snd a) (snd b).

(* ------------------------------------------------------------------ *)
(* spherical.py:40-117  expansion_coeff                                *)
(* For a sine function (mag < 0) the code's k is z + 1/2 and the sign  *)
(* exponent i + k - shift_factor = i + z; 2k = 2z + 1.                 *)
(* ------------------------------------------------------------------ *)
Definition expansion_coeff (l m : nat) (sine : bool) (i j z : nat) : Qc :=
  let s := if sine then 1%nat else 0%nat in
  (zq (zneg1pow (i + z) * zbinom l i * zbinom (l - i) (m + i) * zbinom i j * zbinom m (2 * z + s))
   / zq (4 ^ Z.of_nat i))%Qc.

(* spherical.py:160-163  harmonic_norm = (1 / (2^|m| l!)) * sqrt(2 (l+|m|)! (l-|m|)! / 2^[m=0]):
   rational factor and radicand *)
Definition harmonic_norm_r (l m : nat) : Qc :=
  (1 / zq (2 ^ Z.of_nat m * zfact l))%Qc.
Definition harmonic_radicand (l m : nat) : Qc :=
  (zq (2 * zfact (l + m) * zfact (l - m)) / zq (if Nat.eqb m 0 then 2 else 1))%Qc.

(* spherical.py:210-215: the (i, j, z) triples in the code's order *)
Definition triples (l m : nat) : list (nat * nat * nat) :=
  flat_map (fun i => flat_map (fun j => map (fun z => (i, j, z)) (seq 0 (S (m / 2))))
                              (seq 0 (S i)))
           (seq 0 (S ((l - m) / 2))).

Definition comp_eqb (c d : comp) : bool :=
  let '(a1, a2, a3) := c in let '(b1, b2, b3) := d in
  Nat.eqb a1 b1 && Nat.eqb a2 b2 && Nat.eqb a3 b3.

(* the defaultdict(float) of real_solid_harmonic: insertion-ordered association list *)
Definition hdict := list (comp * Qc).
Fixpoint dict_add (k : comp) (v : Qc) (d : hdict) : hdict :=
  match d with
  | [] => [(k, v)]
  | (k', v') :: d' => if comp_eqb k k' then (k', (v' + v)%Qc) :: d' else (k', v') :: dict_add k v d'
  end.
Fixpoint lookup (k : comp) (d : hdict) : option Qc :=
  match d with
  | [] => None
  | (k', v) :: d' => if comp_eqb k k' then Some v else lookup k d'
  end.

(* spherical.py:207-225  real_solid_harmonic: the rational parts of the
   coefficients (each is expansion_coeff * harmonic_norm_r; the common
   irrational factor sqrt (harmonic_radicand l m) is carried separately).
   Terms whose coefficient vanishes are skipped like in the code (:222); a
   non-vanishing coefficient has 2z+s <= m, hence a_x >= 0 — the [leb] guard
   below never fires on such a term and keeps the truncated subtraction
   honest. *)
Definition real_solid_harmonic (l m : nat) (sine : bool) : hdict :=
  let s := if sine then 1%nat else 0%nat in
  let nr := harmonic_norm_r l m in
  fold_left (fun d '(i, j, z) =>
    let coeff := (expansion_coeff l m sine i j z * nr)%Qc in
    let ay := (2 * j + 2 * z + s)%nat in
    if Qc_eq_bool coeff 0%Qc then d
    else if Nat.leb ay (2 * i + m) then
      dict_add ((2 * i + m - ay)%nat, ay, (l - 2 * i - m)%nat) coeff d
    else d) (triples l m) [].

(* prod_i (2 a_i - 1)!!  (spherical.py:335) *)
Definition cart_df (c : comp) : Z :=
  let '(ax, ay, az) := c in (zdf_odd ax * zdf_odd ay * zdf_odd az)%Z.

(* one matrix entry: spherical.py:319-336 for label (neg, sine, m) and component c,
   given the harmonic dictionary h of that label *)
Definition entry_with (l : nat) (neg : bool) (m : nat) (h : hdict) (c : comp) : surd :=
  let v := match lookup c h with Some v => v | None => 0%Qc end in
  let sv := ((if neg then (- (1))%Qc else 1%Qc) * v)%Qc in            (* sign * coeff        :332 *)
  sdiv_sqrt (smul (sv, harmonic_radicand l m) (s_sqrt (zq (cart_df c))))  (* *= sqrt(prod (2a-1)!!) :335 *)
            (zq (zdf_odd l)).                                          (* /= sqrt((2l-1)!!)   :336 *)

Definition entry_of (l : nat) (lb : label) (c : comp) : surd :=
  let '(neg, sine, m) := lb in entry_with l neg m (real_solid_harmonic l m sine) c.

(* the array [transform] before the final transposition: rows = Cartesian
   components, columns = spherical functions (apply_from = "right") *)
Definition right_form (l : nat) (carts : list comp) (lbs : list label) : list (list surd) :=
  let hs := map (fun lb : label => let '(neg, sine, m) := lb in
                   (neg, m, real_solid_harmonic l m sine)) lbs in
  map (fun c => map (fun '(neg, m, h) => entry_with l neg m h c) hs) carts.

Definition transpose {A} (d : A) (ncols : nat) (rows : list (list A)) : list (list A) :=
  map (fun j => map (fun row => nth j row d) rows) (seq 0 ncols).

Definition szero : surd := (0%Qc, 0%Qc).

(* apply_from = "left": transform.T  (spherical.py:338-339) *)
Definition left_form (l : nat) (carts : list comp) (lbs : list label) : list (list surd) :=
  transpose szero (List.length lbs) (right_form l carts lbs).

(* ------------------------------------------------------------------ *)
(* labels as strings                                                   *)
(* ------------------------------------------------------------------ *)
Definition fmt_N (n : N) : string := NilEmpty.string_of_uint (N.to_uint n).
Definition fmt_label (lb : label) : string :=
  let '(neg, sine, m) := lb in
  ((if (neg : bool) then "-" else "") ++ (if (sine : bool) then "s" else "c") ++ fmt_N (N.of_nat m))%string.

(* the magnetic index after the letter: a canonical decimal numeral not above l *)
Definition parse_index (l : nat) (s : string) : option nat :=
  match NilEmpty.uint_of_string s with
  | Some d => let n := N.of_uint d in
              if (N.leb n (N.of_nat l) && String.eqb (fmt_N n) s)%bool then Some (N.to_nat n) else None
  | None => None
  end.

Definition parse_unsigned (l : nat) (neg : bool) (s : string) : option label :=
  match s with
  | String ch rest =>
      if Ascii.eqb ch "c"%char then
        match parse_index l rest with Some m => Some (neg, false, m) | None => None end
      else if Ascii.eqb ch "s"%char then
        match parse_index l rest with
        | Some m => if Nat.leb 1 m then Some (neg, true, m) else None
        | None => None
        end
      else None
  | EmptyString => None
  end.

(* exactly the forms c{m}, s{m}, -c{m}, -s{m} *)
Definition parse_label (l : nat) (s : string) : option label :=
  match s with
  | String ch rest => if Ascii.eqb ch "-"%char then parse_unsigned l true rest else parse_unsigned l false s
  | EmptyString => None
  end.

Fixpoint parse_labels (l : nat) (ss : list string) : option (list label) :=
  match ss with
  | [] => Some []
  | s :: ss' => match parse_label l s, parse_labels l ss' with
                | Some lb, Some lbs => Some (lb :: lbs)
                | _, _ => None
                end
  end.

Definition unsigned (lb : label) : label := let '(_, sine, m) := lb in (false, sine, m).
Definition is_neg (lb : label) : bool := fst (fst lb).
Definition label_eqb (a b : label) : bool :=
  let '(n1, s1, m1) := a in let '(n2, s2, m2) := b in
  Bool.eqb n1 n2 && Bool.eqb s1 s2 && Nat.eqb m1 m2.

(* 2l+1 labels, every function of the shell named (hence, by counting, named once) *)
Definition labels_ok (l : nat) (lbs : list label) : bool :=
  Nat.eqb (List.length lbs) (2 * l + 1)
  && forallb (fun d => existsb (fun lb => label_eqb (unsigned lb) d) lbs) (default_labels l).

(* (l+1)(l+2)/2 components, each summing to l, every component of the shell present
   (a missing component is a KeyError at spherical.py:332; by counting, a
   list passing this test is a rearrangement of the components) *)
Definition ncart (l : nat) : nat := ((l + 1) * (l + 2) / 2)%nat.
Definition carts_ok (l : nat) (carts : list comp) : bool :=
  Nat.eqb (List.length carts) (ncart l)
  && forallb (fun '(ax, ay, az) => Nat.eqb (ax + ay + az) l) carts
  && forallb (fun d => existsb (comp_eqb d) carts) (default_comps l).

Inductive side := SLeft | SRight.

Definition form (sd : side) (l : nat) (carts : list comp) (lbs : list label) : list (list surd) :=
  match sd with SLeft => left_form l carts lbs | SRight => right_form l carts lbs end.

(* spherical.py:229-340; None = rejected *)
Definition generate_transformation (l : nat) (carts : list comp) (labels : list string) (sd : side)
  : option (list (list surd)) :=
  if carts_ok l carts then
    match parse_labels l labels with
    | Some lbs => if labels_ok l lbs then Some (form sd l carts lbs) else None
    | None => None
    end
  else None.

Definition default_label_strings (l : nat) : list string := map fmt_label (default_labels l).

(* ------------------------------------------------------------------ *)
(* Boolean checkers of the mathematical content (all rational).        *)
(*                                                                     *)
(* A row of the left form lists the coefficients T[c] of one spherical *)
(* function in terms of UNIT-NORMALISED Cartesian functions            *)
(*   N_c x^ax y^ay z^az exp(-alpha r^2),                               *)
(*   N_c = N0(alpha,l) / sqrt(D_c),  D_c = prod (2a-1)!! = cart_df c,  *)
(* so, up to the factor N0 common to the shell, the function is        *)
(*   P(x,y,z) exp(-alpha r^2),  P = sum_c (T[c] / sqrt D_c) x^c.       *)
(* With T[c] = r_c sqrt q_c the coefficient is r_c sqrt (q_c / D_c);   *)
(* [row_poly] checks that q_c / D_c is one number rho > 0 for the      *)
(* whole row and returns (rho, [(c, r_c)]):  P = sqrt rho * sum r_c x^c. *)
(* ------------------------------------------------------------------ *)
Definition qpos (q : Qc) : bool := negb (Qle_bool (this q) 0).
Definition qzero (q : Qc) : bool := Qc_eq_bool q 0%Qc.

Definition row_poly (carts : list comp) (row : list surd) : option (Qc * hdict) :=
  let cr := combine carts row in
  let rads := flat_map (fun '(c, (r, q)) => if qzero r then [] else [(q / zq (cart_df c))%Qc]) cr in
  match rads with
  | [] => None
  | rho :: _ =>
      if (qpos rho && forallb (Qc_eq_bool rho) rads && Nat.eqb (List.length row) (List.length carts))%bool
      then Some (rho, map (fun '(c, (r, _)) => (c, r)) cr) else None
  end.

Definition coef (p : hdict) (c : comp) : Qc :=
  match lookup c p with Some v => v | None => 0%Qc end.

(* homogeneous of degree l: every monomial carried by the row has total degree l *)
Definition homogeneous (l : nat) (p : hdict) : bool :=
  forallb (fun '((ax, ay, az), _) => Nat.eqb (ax + ay + az) l) p.

(* Laplacian = 0: the coefficient of every monomial t of degree l-2 in
   (d2/dx2 + d2/dy2 + d2/dz2) P vanishes *)
Definition harmonic (l : nat) (p : hdict) : bool :=
  forallb (fun '(tx, ty, tz) =>
    qzero (nq ((tx + 2) * (tx + 1)) * coef p ((tx + 2)%nat, ty, tz)
         + nq ((ty + 2) * (ty + 1)) * coef p (tx, (ty + 2)%nat, tz)
         + nq ((tz + 2) * (tz + 1)) * coef p (tx, ty, (tz + 2)%nat))%Qc)
    (default_comps (l - 2)).

(* Overlap of two unit-normalised Cartesian Gaussians of ONE shell (same
   centre, same exponent alpha):
     <a|b> = N_a N_b prod_axis int x^(a+b) exp(-2 alpha x^2) dx,
     int x^n exp(-2 alpha x^2) dx = (n-1)!! (4 alpha)^(-n/2) sqrt(pi/(2 alpha))  (n even), 0 (n odd)
   (bridge B1 of DESIGN.md 2.6 with p = 2 alpha: the moment m_n of Gauss/Moment1D.v with
   v = 1/(4 alpha)); N_a^-2 is the same expression with b = a, so, as |a| = |b| = l,
   every power of alpha and pi cancels:
     <a|b> = G(a,b) / sqrt(D_a D_b),   G(a,b) = prod_axis g1(a_i + b_i),
     g1 n = (n-1)!! if n is even, 0 if n is odd.                         *)
Definition g1 (n : nat) : Z := if Nat.even n then zdf_odd (n / 2) else 0%Z.
Definition gram (a b : comp) : Z :=
  let '(a1, a2, a3) := a in let '(b1, b2, b3) := b in
  (g1 (a1 + b1) * g1 (a2 + b2) * g1 (a3 + b3))%Z.

Definition qsum (l : list Qc) : Qc := fold_left Qcplus l 0%Qc.

(* (G r)[a] = sum_b G(a,b) r_b *)
Definition gram_apply (p : hdict) : hdict :=
  map (fun '(a, _) => (a, qsum (map (fun '(b, rb) =>
     let g := gram a b in if Z.eqb g 0 then 0%Qc else (zq g * rb)%Qc) p))) p.
Definition dot (p q : hdict) : Qc :=
  qsum (map (fun '((_, x), (_, y)) => (x * y)%Qc) (combine p q)).

(* <row_i|row_j> = sqrt(rho_i rho_j) * sum_ab r_ia G(a,b) r_jb  must be delta_ij:
   rho_i * (r_i . G r_i) = 1 and r_i . G r_j = 0 for i <> j (rho > 0) *)
Definition orthonormal (polys : list (Qc * hdict)) : bool :=
  let gs := map (fun '(_, p) => gram_apply p) polys in
  forallb (fun i =>
    let '(rho, p) := nth i polys (0%Qc, []) in
    forallb (fun j =>
      let d := dot p (nth j gs []) in
      if Nat.eqb i j then Qc_eq_bool (rho * d)%Qc 1%Qc else qzero d)
      (seq 0 (List.length polys)))
    (seq 0 (List.length polys)).

(* cos(m phi) / sin(m phi) about z.  In cylindrical coordinates
   x + i y = s e^(i phi):  s^m cos(m phi) = Re (x+iy)^m,  s^m sin(m phi) = Im (x+iy)^m.
   A function "varying as cos(m phi) [sin(m phi)] about the z axis" is
     P = A(s^2, z) * Re [Im] (x+iy)^m ,   A(s^2,z) = sum_t g_t z^(l-m-2t) (x^2+y^2)^t ,
   the common factor near the pole (s -> 0, z > 0) being  sqrt rho * g_0 z^(l-m) (1 + O(s^2)).
   [axial_coeff m sine t ax ay] = coefficient of x^ax y^ay in (x^2+y^2)^t * Re/Im (x+iy)^m
   (ax + ay = m + 2t):  sum over k of the same parity class of
   (-1)^(k div 2) C(m,k) C(t,(ay-k)/2). *)
Definition axial_coeff (m : nat) (sine : bool) (t ay : nat) : Z :=
  let s := if sine then 1%nat else 0%nat in
  fold_left Z.add
    (map (fun kk => let k := (2 * kk + s)%nat in
       if (Nat.leb k ay && Nat.even (ay - k))%bool
       then (zneg1pow kk * zbinom m k * zbinom t ((ay - k) / 2))%Z else 0%Z)
       (seq 0 (S (m / 2)))) 0%Z.

(* g_t read off the monomial whose axial coefficient is 1 (cos: x^(m+2t)) or m (sin: x^(m+2t-1) y) *)
Definition radial_profile (l m : nat) (sine : bool) (p : hdict) : list Qc :=
  map (fun t => let az := (l - m - 2 * t)%nat in
     if sine then (coef p ((m + 2 * t - 1)%nat, 1%nat, az) / nq m)%Qc
     else coef p ((m + 2 * t)%nat, 0%nat, az))
    (seq 0 (S ((l - m) / 2))).

(* P = sum_t g_t z^(l-m-2t) (x^2+y^2)^t Re/Im (x+iy)^m, coefficient by coefficient, and g_0 > 0 *)
Definition axial_ok (l m : nat) (sine : bool) (p : hdict) : bool :=
  let g := radial_profile l m sine p in
  qpos (nth 0 g 0%Qc)
  && forallb (fun '((ax, ay, az), r) =>
       let d := (l - m - az)%nat in
       let expected :=
         if (Nat.leb (az + m) l && Nat.even d)%bool
         then (nth (d / 2) g 0%Qc * zq (axial_coeff m sine (d / 2) ay))%Qc else 0%Qc in
       Qc_eq_bool r expected) p.

(* the documented default order (contractions.py:422-432): m from -l to l, i.e.
   s_l .. s_1 c_0 c_1 .. c_l; the p shell is (c1, s1, c0) = (x, y, z) *)
Definition doc_order (l : nat) : list label :=
  if Nat.eqb l 1 then [(false, false, 1%nat); (false, true, 1%nat); (false, false, 0%nat)]
  else map (fun k => if Nat.ltb k l then (false, true, (l - k)%nat) else (false, false, (k - l)%nat))
           (seq 0 (2 * l + 1)).

Definition list_eqb {A} (e : A -> A -> bool) (a b : list A) : bool :=
  Nat.eqb (List.length a) (List.length b) && forallb (fun '(x, y) => e x y) (combine a b).
Definition mat_eqb (a b : list (list surd)) : bool := list_eqb (list_eqb surd_eqb) a b.
Definition omat_eqb (a b : option (list (list surd))) : bool :=
  match a, b with Some x, Some y => mat_eqb x y | _, _ => false end.

(* cosine / sine partners share rho and the whole radial profile (the "common factor") *)
Definition partners_ok (l : nat) (lbs : list label) (polys : list (Qc * hdict)) : bool :=
  forallb (fun m =>
    let find sine :=
      flat_map (fun '(lb, (rho, p)) => if label_eqb lb (false, sine, m)
                                         then [(rho, radial_profile l m sine p)] else [])
               (combine lbs polys) in
    match find false, find true with
    | [(rc, gc)], [(rs, gs)] => Qc_eq_bool rc rs && list_eqb Qc_eq_bool gc gs
    | _, _ => false
    end) (seq 1 l).

(* every Cartesian monomial of degree l occurs in at least one function (justifies
   [carts_ok]: an order with a missing component is a KeyError in the code) *)
Definition all_used (carts : list comp) (polys : list (Qc * hdict)) : bool :=
  forallb (fun c => existsb (fun '(_, p) => negb (qzero (coef p c))) polys) carts.

Definition opt_all {A} (l : list (option A)) : option (list A) :=
  fold_right (fun x acc => match x, acc with Some v, Some r => Some (v :: r) | _, _ => None end)
             (Some []) l.

Definition check_l (l : nat) : bool :=
  let carts := default_comps l in
  let lbs := default_labels l in
  let strs := default_label_strings l in
  let L := left_form l carts lbs in
  let R := right_form l carts lbs in
  (* the public entry point on the default conventions yields these matrices *)
  omat_eqb (generate_transformation l carts strs SLeft) (Some L)
  && omat_eqb (generate_transformation l carts strs SRight) (Some R)
  (* shapes: 2l+1 functions, (l+1)(l+2)/2 components; left = transpose of right *)
  && Nat.eqb (List.length L) (2 * l + 1) && Nat.eqb (List.length R) (ncart l)
  && mat_eqb L (transpose szero (2 * l + 1) R) && mat_eqb R (transpose szero (ncart l) L)
  (* documented default order *)
  && list_eqb label_eqb lbs (doc_order l)
  && match opt_all (map (row_poly carts) L) with
     | None => false
     | Some polys =>
         forallb (fun '(_, p) => homogeneous l p && harmonic l p) polys
         && orthonormal polys
         && forallb (fun '(lb, (_, p)) => let '(_, sine, m) := lb in axial_ok l m sine p)
                    (combine (doc_order l) polys)
         && partners_ok l (doc_order l) polys
         && all_used carts polys
     end.
