(* Model/Parsers.v — executable line/token-level model of gbasis/parsers.py
   (parse_nwchem :9-72, parse_gbs :75-166, make_contractions :169-247) and of the
   data flow of wrappers.from_pyscf (:260-319).

   What is modelled.  A file is a list of lines (every line newline-terminated,
   printable ASCII, blanks are spaces).  The regular expressions of the code are
   restated as a classification of a line by its whitespace tokens:

     parsers.py:33   \n\s*(\w[\w]?)[ ]+(\w+)\s*\n          nwchem shell header   = [short word; word]
     parsers.py:105  \n\s*(\w[\w]?)\s+\w+\s*\n             gbs element header    = [short word; word]
     parsers.py:118  \n?\s*(\w+)\s+\w+\s+\w+\.\w+\s*\n     gbs shell header      = [word; word; word.word]
     parsers.py:50,132  ^\s*(N)\s+((N\s+)*N)\s*$, N=[0-9.DE+-]+   number row      = >= 2 tokens over the class

   Numbers stay literal strings; [float_ok] only says whether Python's float()
   (after .lower().replace("d","e"), :59-60, :142-143) accepts the literal.
   A result [None] means "the call raises" or "the file is outside the modelled
   fragment" ([nw_fragment]/[gbs_fragment] below: fail-closed).

   Header handling follows the PROPERTY (C18): zero, one or many lines before the
   first element are all fine, the first split segment is always dropped.  The code
   (:35-37, :107-109) drops it "only if it contains a newline" and cannot see a header
   on the first line (the pattern starts with \n); that deviation is the defect
   reported by the correspondence check, not part of this model. *)
From Coq Require Import List String Ascii Bool Arith.
Import ListNotations.
Open Scope string_scope.
Open Scope list_scope.
Open Scope nat_scope.
Notation "a +++ b" := (String.append a b) (at level 60, right associativity).

(* ------------------------------------------------------------------ characters *)
Definition code (c : ascii) : nat := nat_of_ascii c.
Definition is_space (c : ascii) : bool := code c =? 32.
Definition is_digit (c : ascii) : bool := (48 <=? code c) && (code c <=? 57).
Definition is_upper (c : ascii) : bool := (65 <=? code c) && (code c <=? 90).
Definition is_lower (c : ascii) : bool := (97 <=? code c) && (code c <=? 122).
Definition is_letter (c : ascii) : bool := is_upper c || is_lower c.
(* \w restricted to ASCII *)
Definition is_word (c : ascii) : bool := is_digit c || is_letter c || (code c =? 95).
(* the class [0-9\.DE\+\-] of parsers.py:51,133 (upper-case D and E only) *)
Definition is_class (c : ascii) : bool :=
  is_digit c || (code c =? 46) || (code c =? 68) || (code c =? 69) || (code c =? 43) || (code c =? 45).
Definition printable (c : ascii) : bool := (32 <=? code c) && (code c <=? 126).

Fixpoint forall_s (p : ascii -> bool) (s : string) : bool :=
  match s with EmptyString => true | String c r => p c && forall_s p r end.
Definition nonempty (s : string) : bool := match s with EmptyString => false | _ => true end.
Fixpoint chars (s : string) : list ascii :=
  match s with EmptyString => [] | String c r => c :: chars r end.

Definition pure_word (s : string) : bool := nonempty s && forall_s is_word s.
Definition short_word (s : string) : bool := pure_word s && (String.length s <=? 2).
Definition class_tok (s : string) : bool := nonempty s && forall_s is_class s.
Definition nospace (s : string) : bool := forall_s (fun c => negb (is_space c)) s.

(* \w+\.\w+ as a whole token *)
Fixpoint ww_tail (s : string) : bool :=   (* after at least one word character *)
  match s with
  | EmptyString => false
  | String c r => if code c =? 46 then pure_word r else is_word c && ww_tail r
  end.
Definition is_ww (s : string) : bool :=
  match s with EmptyString => false | String c r => is_word c && ww_tail r end.

(* ------------------------------------------------------------------ tokens *)
Fixpoint split_ws (s : string) : list string :=
  match s with
  | EmptyString => [EmptyString]
  | String c r =>
      if is_space c then EmptyString :: split_ws r
      else match split_ws r with
           | h :: t => String c h :: t
           | [] => [String c EmptyString]
           end
  end.
Definition tokens (s : string) : list string := filter nonempty (split_ws s).
Definition is_blank (s : string) : bool := match tokens s with [] => true | _ => false end.

(* ------------------------------------------------------------------ numbers *)
Definition drop_sign (s : string) : string :=
  match s with
  | String c r => if (code c =? 43) || (code c =? 45) then r else s
  | EmptyString => s
  end.
Fixpoint span_digits (s : string) : nat * string :=
  match s with
  | String c r => if is_digit c then let (n, t) := span_digits r in (S n, t) else (0, s)
  | EmptyString => (0, s)
  end.
(* float() of Python accepts  [sign] (digits [. digits*] | . digits) [(e) [sign] digits]  — the
   literal has already passed the class test, so the exponent mark is E or D. *)
Definition float_ok (s : string) : bool :=
  let (n1, s2) := span_digits (drop_sign s) in
  let (n2, s3) := match s2 with
                  | String c r => if code c =? 46 then span_digits r else (0, s2)
                  | EmptyString => (0, s2)
                  end in
  (0 <? n1 + n2) &&
  match s3 with
  | EmptyString => true
  | String c r => ((code c =? 68) || (code c =? 69)) &&
                  (let (n3, s4) := span_digits (drop_sign r) in (0 <? n3) && negb (nonempty s4))
  end.

(* ------------------------------------------------------------------ angular momentum letters *)
(* dict_angmom, parsers.py:34,106, looked up after .lower() (:45,:127) *)
Definition angmom_table : list (nat * nat) :=
  [(115,0);(112,1);(100,2);(102,3);(103,4);(104,5);(105,6);(107,7)].
Definition lower_code (n : nat) : nat := if (65 <=? n) && (n <=? 90) then n + 32 else n.
Definition angmom_of_char (c : ascii) : option nat :=
  match find (fun p => fst p =? lower_code (code c)) angmom_table with
  | Some p => Some (snd p)
  | None => None
  end.
Definition letter_of (lower : bool) (l : nat) : ascii :=
  let base := nth l [83;80;68;70;71;72;73;75] 63 in      (* S P D F G H I K ; '?' beyond k *)
  ascii_of_nat (if lower then base + 32 else base).
Fixpoint letters (lower : bool) (ls : list nat) : string :=
  match ls with [] => EmptyString | l :: r => String (letter_of lower l) (letters lower r) end.

Fixpoint map_opt {A B} (f : A -> option B) (l : list A) : option (list B) :=
  match l with
  | [] => Some []
  | a :: r => match f a, map_opt f r with
              | Some b, Some bs => Some (b :: bs)
              | _, _ => None
              end
  end.

(* ------------------------------------------------------------------ result types *)
(* one shell of the result: angular momentum, exponent literals, coefficient COLUMNS *)
Definition shell : Type := nat * list string * list (list string).
(* the returned dict, in insertion order *)
Definition dict : Type := list (string * list shell).

Definition keys (d : dict) : list string := map fst d.
Fixpoint dict_get (d : dict) (a : string) : list shell :=
  match d with
  | [] => []
  | (k, v) :: r => if String.eqb k a then v else dict_get r a
  end.
Fixpoint dict_set (d : dict) (a : string) (v : list shell) : dict :=
  match d with
  | [] => [(a, v)]
  | (k, w) :: r => if String.eqb k a then (k, v) :: r else (k, w) :: dict_set r a v
  end.
(* output.setdefault(atom, []); output[atom].append(...) *)
Definition dict_append (d : dict) (a : string) (s : list shell) : dict :=
  dict_set d a (dict_get d a ++ s).

(* ------------------------------------------------------------------ rows *)
(* parsers.py:49-62 / 131-145: a line that matches the row pattern contributes (exp, coefficients) *)
Definition row_of (line : string) : option (string * list string) :=
  match tokens line with
  | e :: c :: cs => if forallb class_tok (e :: c :: cs) then Some (e, c :: cs) else None
  | _ => None
  end.
Fixpoint filter_map {A B} (f : A -> option B) (l : list A) : list B :=
  match l with
  | [] => []
  | a :: r => match f a with Some b => b :: filter_map f r | None => filter_map f r end
  end.
Definition rows_of_body (body : list string) : list (string * list string) := filter_map row_of body.
Definition rows_float_ok (rows : list (string * list string)) : bool :=
  forallb (fun r => float_ok (fst r) && forallb float_ok (snd r)) rows.

(* np.array(list of rows): ragged rows raise; the columns of the K x M matrix *)
Definition cols_of_rows (m : nat) (rows : list (list string)) : list (list string) :=
  map (fun j => map (fun row => nth j row EmptyString) rows) (seq 0 m).
Definition transpose (rows : list (list string)) : option (list (list string)) :=
  match rows with
  | [] => Some []
  | r0 :: _ => if forallb (fun r => List.length r =? List.length r0) rows
               then Some (cols_of_rows (List.length r0) rows) else None
  end.

Fixpoint enumerate_from {A} (n : nat) (l : list A) : list (nat * A) :=
  match l with [] => [] | a :: r => (n, a) :: enumerate_from (S n) r end.

(* ------------------------------------------------------------------ re.split at line level *)
Section Split.
  Context {H : Type} (hdr : string -> option H).
  (* re.split with a pattern  \n\s* HEADER \s*\n  (parsers.py:33,105).  A match needs the newline
     that ends the previous line; the match of a header swallows its own newline and every blank
     line after it, so the next non-blank line cannot start a match ([prot]); blank lines never
     change that state.  Returns the lines before the first header and the (header, body) list. *)
  Fixpoint segs (prot : bool) (ls : list string) : list string * list (H * list string) :=
    match ls with
    | [] => ([], [])
    | l :: r =>
        if is_blank l then let (b, ss) := segs prot r in (l :: b, ss)
        else match (if prot then None else hdr l) with
             | Some h => let (b, ss) := segs true r in ([], (h, b) :: ss)
             | None => let (b, ss) := segs false r in (l :: b, ss)
             end
    end.
End Split.

(* ================================================================== NWChem *)
(* parsers.py:33 — [short word; word] *)
Definition header_nw (line : string) : option (string * string) :=
  match tokens line with
  | [t1; t2] => if short_word t1 && pure_word t2 then Some (t1, t2) else None
  | _ => None
  end.

(* parsers.py:43-70, one (atom, angmom letters, body) triple *)
Definition process_nw (g : string) (body : list string) : option (list shell) :=
  match map_opt angmom_of_char (chars g) with          (* :45 KeyError *)
  | None => None
  | Some ls =>
      let rows := rows_of_body body in
      if negb (rows_float_ok rows) then None             (* :59-60 ValueError *)
      else
        let exps := map fst rows in
        match transpose (map snd rows) with              (* :64 np.array *)
        | None => None
        | Some cols =>
            match ls with
            | [l] => Some [(l, exps, cols)]              (* :66-67 *)
            | _ => map_opt (fun il => match nth_error cols (fst il) with       (* :69-70 coeffs_gen[:, i] *)
                                      | Some col => Some (snd il, exps, [col])
                                      | None => None
                                      end) (enumerate_from 0 ls)
            end
        end
  end.

Definition step_nw (d : dict) (s : (string * string) * list string) : option dict :=
  let '((a, g), body) := s in
  match process_nw g body with
  | Some shells => Some (dict_append d a shells)
  | None => None
  end.
Fixpoint fold_opt {A B} (f : A -> B -> option A) (a : A) (l : list B) : option A :=
  match l with
  | [] => Some a
  | b :: r => match f a b with Some a' => fold_opt f a' r | None => None end
  end.

(* the modelled fragment: printable ASCII *)
Definition nw_fragment (lines : list string) : bool := forallb (forall_s printable) lines.

Definition parse_nw_from (d : dict) (lines : list string) : option dict :=
  fold_opt step_nw d (snd (segs header_nw false lines)).
Definition parse_nwchem_model (lines : list string) : option dict :=
  if nw_fragment lines then parse_nw_from [] lines else None.

(* ================================================================== Gaussian94 *)
(* parsers.py:105 — [short word; word] *)
Definition header_gbs (line : string) : option string :=
  match tokens line with
  | [t1; t2] => if short_word t1 && pure_word t2 then Some t1 else None
  | _ => None
  end.
(* parsers.py:118 — [word; word; word.word] *)
Definition sheader_gbs (line : string) : option string :=
  match tokens line with
  | [t1; t2; t3] => if pure_word t1 && pure_word t2 && is_ww t3 then Some t1 else None
  | _ => None
  end.

(* The two gbs patterns use \s+ between their tokens and the shell pattern is not anchored at a line
   start, so a match could straddle lines or start in the middle of a line.  Lines on which that could
   happen are outside the modelled fragment (the model answers None, it never guesses):
   a single-token line that is a short word or word.word; a line ending in  word word.word  that is
   not exactly a three-token shell header. *)
Definition bad_gbs_line (line : string) : bool :=
  match rev (tokens line) with
  | [] => false
  | [c] => is_ww c || short_word c
  | c :: b :: rest => is_ww c && pure_word b &&
                      negb (match rest with [a] => pure_word a | _ => false end)
  end.
Definition gbs_fragment (lines : list string) : bool :=
  forallb (fun l => forall_s printable l && negb (bad_gbs_line l)) lines.

(* re.split of one element's text at shell headers (parsers.py:118-124).  \n? is optional, so there is
   no protection rule; the pattern needs the newline that ends the header line, and the element text
   of a non-final element ends without one, so a header that is the last non-blank line of a non-final
   element is not seen. *)
Fixpoint ssegs (final : bool) (ls : list string) : list string * list (string * list string) :=
  match ls with
  | [] => ([], [])
  | l :: r =>
      let (b, ss) := ssegs final r in
      match sheader_gbs l with
      | Some g => if final || existsb (fun x => negb (is_blank x)) r then ([], (g, b) :: ss) else (l :: b, ss)
      | None => (l :: b, ss)
      end
  end.

(* parsers.py:126-147 and the slices coeffs_seg[:, i:i+1] of :161,:164 — one unit per letter *)
Definition block_units (gb : string * list string) : option (list shell) :=
  let (g, body) := gb in
  match map_opt angmom_of_char (chars g) with          (* :127 KeyError *)
  | None => None
  | Some ls =>
      let rows := rows_of_body body in
      if negb (rows_float_ok rows) then None             (* :142-143 ValueError *)
      else
        match rows with
        | [] => None                                     (* 1-D empty array sliced with [:, i:i+1] : IndexError *)
        | _ =>
          let exps := map fst rows in
          match transpose (map snd rows) with            (* :147 np.array *)
          | None => None
          | Some cols =>
              Some (map (fun il => (snd il, exps,
                                    match nth_error cols (fst il) with
                                    | Some col => [col]
                                    | None => []          (* slice beyond the last column: K x 0 *)
                                    end)) (enumerate_from 0 ls))
          end
        end
  end.

Fixpoint concat_opt {A} (l : list (option (list A))) : option (list A) :=
  match l with
  | [] => Some []
  | None :: _ => None
  | Some x :: r => match concat_opt r with Some y => Some (x ++ y) | None => None end
  end.
Definition chunk_units (final : bool) (lines : list string) : option (list shell) :=
  concat_opt (map block_units (snd (ssegs final lines))).

Section Gbs.
  (* np.allclose on two floats (parsers.py:154), abstract: Python's float() is not modelled *)
  Variable close : string -> string -> bool.

  Fixpoint forall2b (e1 e2 : list string) : bool :=
    match e1, e2 with
    | [], [] => true
    | a :: r, b :: s => close a b && forall2b r s
    | _, _ => false
    end.
  (* same angular momentum, same number of exponents, all close: parsers.py:152-157 *)
  Definition fuses (s1 s2 : shell) : bool :=
    let '(l1, e1, _) := s1 in let '(l2, e2, _) := s2 in
    (l1 =? l2) && (List.length e1 =? List.length e2) && forall2b e1 e2.

  (* parsers.py:150-164 for one (angmom, exps, column) unit *)
  Definition push (acc : list shell) (u : shell) : list shell :=
    match rev acc with
    | last :: init =>
        if fuses last u
        then rev init ++ [(fst (fst u), snd (fst u), snd last ++ snd u)]     (* :158-162 np.hstack *)
        else acc ++ [u]                                                    (* :164 *)
    | [] => acc ++ [u]
    end.

  Fixpoint run_chunks (d : dict) (cs : list (string * list string)) : option dict :=
    match cs with
    | [] => Some d
    | (a, ls) :: r =>
        match chunk_units (match r with [] => true | _ => false end) ls with
        | Some us => run_chunks (dict_set d a (fold_left push us (dict_get d a))) r
        | None => None
        end
    end.

  Definition parse_gbs_from (d : dict) (lines : list string) : option dict :=
    run_chunks d (snd (segs header_gbs false lines)).
  Definition parse_gbs_model (lines : list string) : option dict :=
    if gbs_fragment lines then parse_gbs_from [] lines else None.
End Gbs.

(* the instance used when the model is run: literal equality of the exponent strings (the harness
   only generates files in which consecutive same-l blocks have either identical exponent literals
   or exponents that np.allclose separates) *)
Definition close_lit : string -> string -> bool := String.eqb.

(* ================================================================== AST, layout, printers *)
(* one written block: letters (one letter: a possibly generalized shell with all its columns; several
   letters: a combined shell such as SP, one column per letter), exponent literals, coefficient columns *)
Record block : Type := { b_ls : list nat; b_exps : list string; b_cols : list (list string) }.
Definition ast : Type := list (string * list block).

Record layout : Type := {
  lay_pre : list string;                    (* lines before the first element: none, one, many *)
  lay_post : list string;                   (* lines after the last row (END, blank lines ...) *)
  lay_fill : list nat -> list string;       (* comment / blank / separator lines printed before the line at a position *)
  lay_pad : list nat -> nat * nat * nat;    (* indentation, extra blanks between tokens, trailing blanks *)
  lay_lower : list nat -> bool;             (* shell letters in lower case *)
  lay_tok2 : list nat -> string;            (* gbs: second token of an element header ("0"), of a shell header ("3") *)
  lay_tok3 : list nat -> string             (* gbs: third token of a shell header ("1.00") *)
}.

Fixpoint spaces (n : nat) : string := match n with 0 => EmptyString | S k => String " " (spaces k) end.
Fixpoint join (n : nat) (toks : list string) : string :=
  match toks with
  | [] => EmptyString
  | t :: r => match r with [] => t | _ => t +++ spaces n +++ join n r end
  end.
Definition render (p : nat * nat * nat) (toks : list string) : string :=
  let '(ind, sep, trail) := p in spaces ind +++ join (S sep) toks +++ spaces trail.

(* row k of a block: exponent k followed by entry k of every column *)
Definition row_toks (b : block) (k : nat) : list string :=
  nth k (b_exps b) EmptyString :: map (fun col => nth k col EmptyString) (b_cols b).
Definition block_rows (b : block) : list (list string) := map (row_toks b) (seq 0 (List.length (b_exps b))).

Fixpoint mapi_from {A B} (n : nat) (f : nat -> A -> list B) (l : list A) : list B :=
  match l with [] => [] | a :: r => f n a ++ mapi_from (S n) f r end.

Definition print_rows (L : layout) (pos : list nat) (rows : list (list string)) : list string :=
  mapi_from 0 (fun k row => lay_fill L (pos ++ [k]) ++ [render (lay_pad L (pos ++ [k])) row]) rows.

(* NWChem: "El  LETTERS" then the rows, all columns side by side *)
Definition print_block_nw (L : layout) (i : nat) (sym : string) (j : nat) (b : block) : list string :=
  lay_fill L [i; j] ++
  [render (lay_pad L [i; j]) [sym; letters (lay_lower L [i; j]) (b_ls b)]] ++
  print_rows L [i; j] (block_rows b).
Definition print_elem_nw (L : layout) (i : nat) (e : string * list block) : list string :=
  mapi_from 0 (print_block_nw L i (fst e)) (snd e).
Definition print_nwchem (a : ast) (L : layout) : list string :=
  lay_pre L ++ mapi_from 0 (print_elem_nw L) a ++ lay_post L.

(* Gaussian94: "El 0", then per block "LETTERS n 1.00" + rows.  A one-letter block with M columns is
   written as M consecutive one-column blocks (that is how the format spells a generalized shell; the
   parser's merge rule puts them back together); a combined block is written once. *)
Definition gbs_subblocks (b : block) : list block :=
  match b_ls b with
  | [l] => map (fun col => {| b_ls := [l]; b_exps := b_exps b; b_cols := [col] |}) (b_cols b)
  | _ => [b]
  end.
Definition print_sub_gbs (L : layout) (i j : nat) (m : nat) (b : block) : list string :=
  lay_fill L [i; j; m] ++
  [render (lay_pad L [i; j; m]) [letters (lay_lower L [i; j; m]) (b_ls b); lay_tok2 L [i; j; m]; lay_tok3 L [i; j; m]]] ++
  print_rows L [i; j; m] (block_rows b).
Definition print_block_gbs (L : layout) (i : nat) (j : nat) (b : block) : list string :=
  mapi_from 0 (print_sub_gbs L i j) (gbs_subblocks b).
Definition print_elem_gbs (L : layout) (i : nat) (e : string * list block) : list string :=
  lay_fill L [i] ++ [render (lay_pad L [i]) [fst e; lay_tok2 L [i]]] ++
  mapi_from 0 (print_block_gbs L i) (snd e).
Definition print_gbs (a : ast) (L : layout) : list string :=
  lay_pre L ++ mapi_from 0 (print_elem_gbs L) a ++ lay_post L.

(* what the property says the import must return *)
Definition expected_block (b : block) : list shell :=
  match b_ls b with
  | [l] => [(l, b_exps b, b_cols b)]
  | ls => map (fun lc => (fst lc, b_exps b, [snd lc])) (combine ls (b_cols b))
  end.
Definition expected_shells (bs : list block) : list shell := List.concat (map expected_block bs).
Definition expected (a : ast) : dict := map (fun e => (fst e, expected_shells (snd e))) a.

(* ------------------------------------------------------------------ well-formedness *)
(* a literal: passes the class test, float() accepts it, and it is not a bare word such as "5" or "1E5"
   (the code takes a row "5 1" for a header; every number in a basis-set file carries a point or a sign) *)
Definition wf_lit (s : string) : bool := class_tok s && float_ok s && negb (pure_word s).
Definition wf_block (b : block) : bool :=
  nonempty (letters false (b_ls b)) && forallb (fun l => l <=? 7) (b_ls b) &&
  (1 <=? List.length (b_exps b)) && (1 <=? List.length (b_cols b)) &&
  forallb wf_lit (b_exps b) &&
  forallb (fun col => (List.length col =? List.length (b_exps b)) && forallb wf_lit col) (b_cols b) &&
  ((List.length (b_ls b) =? 1) || (List.length (b_ls b) =? List.length (b_cols b))).
Definition wf_sym (s : string) : bool :=
  nonempty s && forall_s is_letter s && (String.length s <=? 2).
Fixpoint nodupb (l : list string) : bool :=
  match l with [] => true | a :: r => negb (existsb (String.eqb a) r) && nodupb r end.
Definition wf_ast (a : ast) : bool :=
  forallb (fun e => wf_sym (fst e) && (1 <=? List.length (snd e)) && forallb wf_block (snd e)) a &&
  nodupb (map fst a).

(* Gaussian94 only: the merge rule must not fuse two shells that the file means to be separate *)
Fixpoint no_fuse (close : string -> string -> bool) (l : list shell) : bool :=
  match l with
  | s1 :: ((s2 :: _) as r) => negb (fuses close s1 s2) && no_fuse close r
  | _ => true
  end.
Definition wf_ast_gbs (close : string -> string -> bool) (a : ast) : bool :=
  wf_ast a && forallb (fun e => no_fuse close (expected_shells (snd e))) a.

(* filler lines: anything the parsers classify as "other" *)
Definition filler_nw (s : string) : bool :=
  forall_s printable s &&
  match header_nw s with Some _ => false | None => true end &&
  match row_of s with Some _ => false | None => true end.
Definition filler_gbs (s : string) : bool :=
  forall_s printable s && negb (bad_gbs_line s) &&
  match header_gbs s with Some _ => false | None => true end &&
  match sheader_gbs s with Some _ => false | None => true end &&
  match row_of s with Some _ => false | None => true end.

Definition layout_ok_nw (L : layout) : Prop :=
  forallb filler_nw (lay_pre L) = true /\ forallb filler_nw (lay_post L) = true /\
  forall pos, forallb filler_nw (lay_fill L pos) = true.
Definition layout_ok_gbs (L : layout) : Prop :=
  forallb filler_gbs (lay_pre L) = true /\ forallb filler_gbs (lay_post L) = true /\
  (forall pos, forallb filler_gbs (lay_fill L pos) = true) /\
  (forall pos, pure_word (lay_tok2 L pos) = true) /\
  (forall pos, is_ww (lay_tok3 L pos) = true).

(* ================================================================== make_contractions *)
(* parsers.py:169-247.  [C] is the type of a coordinate row (opaque).  coord_types is one string, a
   list or a tuple (:180-186).  The model works on a private copy of the type list (the pop(0) of :243
   is modelled on that copy) and returns, next to the result, the four argument objects as the caller
   sees them after the call. *)
Inductive ctypes : Type := CStr (s : string) | CList (l : list string) | CTuple (l : list string).

Definition norm_type (s : string) : option string :=   (* contractions.py:559-572 *)
  if String.eqb s "c" || String.eqb s "cartesian" then Some "cartesian"
  else if String.eqb s "p" || String.eqb s "spherical" then Some "spherical"
  else None.

Section MakeContractions.
  Context {C : Type}.
  Definition contraction : Type := nat * C * shell * string.     (* icenter, coord, shell, coord_type *)
  Definition mc_args : Type := dict * list string * list C * ctypes.

  Definition dict_find (d : dict) (a : string) : option (list shell) :=
    match find (fun kv => String.eqb (fst kv) a) d with Some kv => Some (snd kv) | None => None end.

  (* :236-246 inner loop: one atom's shells, popping the head of the local type list *)
  Fixpoint place (ic : nat) (co : C) (shells : list shell) (types : list string)
    : option (list contraction * list string) :=
    match shells with
    | [] => Some ([], types)
    | sh :: r =>
        match types with
        | [] => None                                              (* pop from empty list *)
        | t :: ts =>
            match norm_type t, place ic co r ts with
            | Some t', Some (out, rest) => Some ((ic, co, sh, t') :: out, rest)
            | _, _ => None
            end
        end
    end.
  (* :235 outer loop over enumerate(zip(atoms, coords)) *)
  Fixpoint place_all (d : dict) (ic : nat) (ats : list (string * C)) (types : list string)
    : option (list contraction) :=
    match ats with
    | [] => Some []
    | (a, co) :: r =>
        match dict_find d a with
        | None => None                                            (* KeyError *)
        | Some shells =>
            match place ic co shells types with
            | None => None
            | Some (out, rest) =>
                match place_all d (S ic) r rest with
                | Some out' => Some (out ++ out')
                | None => None
                end
            end
        end
    end.

  Definition total_shells (d : dict) (atoms : list string) : option nat :=      (* :217 *)
    match map_opt (dict_find d) atoms with
    | Some ss => Some (list_sum (map (@List.length shell) ss))
    | None => None
    end.

  Definition make_contractions_model (args : mc_args) : option (list contraction) * mc_args :=
    let '(d, atoms, coords, ct) := args in
    let res :=
      if negb (List.length atoms =? List.length coords) then None                         (* :212 *)
      else match total_shells d atoms with
           | None => None
           | Some n =>
               let local :=                                                     (* :220-226, private copy *)
                 match ct with
                 | CStr s => match norm_type s with Some _ => Some (repeat s n) | None => None end
                 | CList l => Some l
                 | CTuple l => Some l
                 end in
               match local with
               | None => None
               | Some tl => if negb (List.length tl =? n) then None                  (* :228 *)
                            else place_all d 0 (combine atoms coords) tl
               end
           end in
    (res, args).
End MakeContractions.

(* wrappers.py:303-319: from_pyscf, data flow only.  mol._atom = [(symbol, coord)], mol._basis =
   symbol -> [[l, [exp, c1, .., cM], ...], ...] (rows), mol.cart.  Result: per atom in order, per shell
   in order, (l, coord, exps, coefficient ROWS (K x M, as np.vstack gives them), type); no icenter is set
   by the code. *)
Section FromPyscf.
  Context {C N : Type}.
  Definition pyscf_shell : Type := nat * list (N * list N).      (* l, rows (exp, coefficients) *)
  Definition from_pyscf_model (atoms : list (string * C)) (basis : list (string * list pyscf_shell))
             (cart : bool) : option (list (nat * C * list N * list (list N) * string)) :=
    let ty := if cart then "cartesian" else "spherical" in
    match map_opt (fun ac : string * C =>
               match find (fun kv => String.eqb (fst kv) (fst ac)) basis with
               | None => None
               | Some kv => Some (map (fun sh : pyscf_shell =>
                                         (fst sh, snd ac, map fst (snd sh), map snd (snd sh), ty)) (snd kv))
               end) atoms with
    | Some ll => Some (List.concat ll)
    | None => None
    end.
End FromPyscf.
