(* Model/MomentInt.v — model of gbasis/integrals/_moment_int.py.

   [table]   mirrors _compute_multipole_moment_integrals_intermediate
             (_moment_int.py:53-140) for ONE axis and ONE primitive pair: the
             row over a at (k=0, b=0), then the rows over b, then the planes
             over the moment order k — in that order, each row built from the
             two previous ones as the NumPy slices do.  The special first
             steps of the code (e.g. integrals[0,0,1:2] = PA * integrals[0,0,0:1])
             are the general step with a zero coefficient.
   [mm_block] mirrors _cleanup_intermediate_integrals (_moment_int.py:209-239):
             fancy-index selection (order, b, a) per axis, product over the
             axes, primitive norms, contraction over a then b, final transpose
             to (D, M_a, L_a, M_b, L_b). *)
From Coq Require Import List Arith Lia.
From GB Require Import Base.Field Base.FNum Base.Tables Gauss.Moment1D Model.Shell.
Import ListNotations.

Section MomentInt.
Context {F : Type} (K : Fops F).
Local Open Scope F_scope.
Notation "0" := (f0 K) : F_scope.
Notation "1" := (f1 K) : F_scope.
Infix "+" := (fadd K) : F_scope.
Infix "*" := (fmul K) : F_scope.
Infix "-" := (fsub K) : F_scope.
Infix "/" := (fdiv K) : F_scope.
Notation "- x" := (fopp K x) : F_scope.
Notation "# n" := (ofnat K n) (at level 5) : F_scope.

Definition nth2 (j i : nat) (t : list (list F)) : F := nth i (nth j t []) 0.
Definition nth3 (k j i : nat) (t : list (list (list F))) : F := nth2 j i (nth k t []).
Notation fsum := (FNum.fsum K).
Notation fpow := (FNum.fpow K).

Section Axis.
Variables (Ax Bx Cx alpha beta : F) (la lb km : nat).
Definition psum := alpha + beta.
Definition Pw := (alpha * Ax + beta * Bx) / psum.
Definition PA := Pw - Ax.
Definition PB := Pw - Bx.
Definition PC := Pw - Cx.
Definition hmean := alpha * beta / psum.
Definition twop := (1 + 1) * psum.
Definition base := fsqrt K (fpi K / psum) * fexp K (- (hmean * ((Ax - Bx) * (Ax - Bx)))).

Definition step_a (i : nat) (x y : F) : F := PA * x + #i * y / twop.
Definition row_a : list F := iter2 step_a la 0%nat base 0.

Definition step_b (j : nat) (cur prev : list F) : list F :=
  mk (S la) (fun i =>
    PB * nth i cur 0 + (#i * nth (i - 1) cur 0 + #j * nth i prev 0) / twop).
Definition plane0 : list (list F) := iter2 step_b lb 0%nat row_a [].

Definition step_c (k : nat) (cur prev : list (list F)) : list (list F) :=
  mk (S lb) (fun j => mk (S la) (fun i =>
    PC * nth2 j i cur
    + (#i * nth2 j (i - 1) cur + #j * nth2 (j - 1) i cur + #k * nth2 j i prev) / twop)).
Definition table : list (list (list F)) := iter2 step_c km 0%nat plane0 [].
End Axis.

Definition pow34 (x : F) : F := let r := fsqrt K (fsqrt K x) in r * r * r.

(* contractions.py:455-461 *)
Definition norm_prim (l : nat) (c : comp) (alpha : F) : F :=
  let '(ax, ay, az) := c in
  fapx K (pow34 ((1 + 1) * alpha / fpi K)
  * fsqrt K (fpow ((1 + 1 + 1 + 1) * alpha) l)
  / fsqrt K (fdf_odd K ax * fdf_odd K ay * fdf_odd K az)).

(* ---- shell-pair block ---- *)
Definition table3 := (list (list (list F)) * list (list (list F)) * list (list (list F)))%type.

Definition prim3 (t : table3) (o ca cb : comp) : F :=
  let '(tx, ty, tz) := t in
  let '(ox, oy, oz) := o in let '(ax, ay, az) := ca in let '(bx, by_, bz) := cb in
  fapx K (nth3 ox bx ax tx * nth3 oy by_ ay ty * nth3 oz bz az tz).

(* norm_prim_cart: (L, K) array, contractions.py:455-461 *)
Definition norms (s : shell F) : list (list F) :=
  map (fun c => map (norm_prim (s_l s) c) (s_exps s)) (comps_of s).

(* ---- the contraction shared by every two-index kernel ----
   [pf ca cb] is the (K_b, K_a) array of primitive integrals for one pair of components;
   the two tensordots of _cleanup_intermediate_integrals (_moment_int.py:221-239) contract
   first the primitives of a (with norm_a), then those of b (with norm_b); the result is
   laid out (M_a, L_a, M_b, L_b). *)
Section Contract.
Variables (sa sb : shell F).
Definition contract_a (P : list (list F)) (na : list F) : list (list F) :=      (* [kb][ma] *)
  map (fun prow => mk (nseg sa) (fun ma =>
         fsum (map (fun '(x, (n, crow)) => x * n * nth ma crow 0)
                   (combine prow (combine na (s_coeffs sa)))))) P.
Definition contract_b (Q : list (list F)) (nb : list F) : list (list F) :=      (* [ma][mb] *)
  mk (nseg sa) (fun ma => mk (nseg sb) (fun mb =>
    fsum (map (fun '(qrow, (n, crow)) => nth ma qrow 0 * n * nth mb crow 0)
              (combine Q (combine nb (s_coeffs sb)))))).
Definition block_of (pf : comp -> comp -> list (list F)) : list (list (list (list F))) :=
  let cas := combine (comps_of sa) (norms sa) in
  let cbs := combine (comps_of sb) (norms sb) in
  let mats := map (fun '(ca, na) => map (fun '(cb, nb) =>
                contract_b (contract_a (pf ca cb) na) nb) cbs) cas in
  mk (nseg sa) (fun ma => mk (length cas) (fun ia =>
    mk (nseg sb) (fun mb => mk (length cbs) (fun ib =>
      nth mb (nth ma (nth ib (nth ia mats []) []) []) 0)))).
End Contract.

Section Block.
Variables (Cx Cy Cz : F) (orders : list comp) (sa sb : shell F).

Definition omax : nat :=
  fold_right (fun '(ox, oy, oz) m => Nat.max (Nat.max ox oy) (Nat.max oz m)) 0%nat orders.

(* tables for every primitive pair: [kb][ka] -> (tx, ty, tz) *)
Definition tabs : list (list table3) :=
  map (fun beta => map (fun alpha =>
        (table (s_x sa) (s_x sb) Cx alpha beta (s_l sa) (s_l sb) omax,
         table (s_y sa) (s_y sb) Cy alpha beta (s_l sa) (s_l sb) omax,
         table (s_z sa) (s_z sb) Cz alpha beta (s_l sa) (s_l sb) omax)) (s_exps sa)) (s_exps sb).

(* the defining double sum (used as the specification of an entry) *)
Definition mm_entry (o : comp) (ma : nat) (ca : comp) (mb : nat) (cb : comp) : F :=
  fsum (map (fun '(beta, (crow_b, trow)) =>
         fsum (map (fun '(alpha, (crow_a, t)) =>
                 prim3 t o ca cb * norm_prim (s_l sa) ca alpha * nth ma crow_a 0)
               (combine (s_exps sa) (combine (s_coeffs sa) trow)))
         * norm_prim (s_l sb) cb beta * nth mb crow_b 0)
       (combine (s_exps sb) (combine (s_coeffs sb) tabs))).

Definition mm_block : list (list (list (list (list F)))) :=
  let ts := tabs in      (* evaluated once, like the intermediate array of the code *)
  map (fun o => block_of sa sb (fun ca cb => map (map (fun t => prim3 t o ca cb)) ts)) orders.
End Block.

(* Overlap.construct_array_contraction without screening (overlap.py:110-126) *)
Definition overlap_block (sa sb : shell F) : list (list (list (list F))) :=
  hd [] (mm_block 0 0 0 [(0, 0, 0)%nat] sa sb).

End MomentInt.
