(* Model/TwoElec.v — model of gbasis/integrals/_two_elec_int.py
   (_compute_two_elec_integrals, _compute_two_elec_integrals_angmom_zero) and
   electron_repulsion.py (dispatch, axis order, physicist transpose).

   Per primitive quartet, L = la+lb+lc+ld, Lc = lc+ld, p = alpha+beta, q = gamma+delta,
   rho = p q/(p+q), P, Q the two weighted centres:
     V[m][000] = 2 pi^2.5 / (p q sqrt(p+q)) F_m(rho |PQ|^2) exp(-mu_ab |AB|^2) exp(-mu_cd |CD|^2)  (:335-345)
     vertical recursion on a, one axis after the other (:346-399):
       V[m][a+1] = PA V[m][a] - (rho/p) PQ V[m+1][a] + a/(2p) (V[m][a-1] - (rho/p) V[m+1][a-1])
     electron transfer at m = 0, one axis after the other (:413-526):
       E[c+1][a] = (QC + (p/q) PA) E[c][a] + a/(2q) E[c][a-1] + c/(2q) E[c-1][a] - (p/q) E[c][a+1]
       written for a <= L-1 only (slices 1:-1 / 2:), the column a = L keeps its zeros:
       an entry is meaningful iff |a| + |c| <= L
     primitive norms (radial part) and contraction over a, c, b, d (:528-547)
     horizontal recursion c -> d with CD, then a -> b with AB, restricted to a <= la+lb (:567-790)
     1/sqrt((2a-1)!!..) for the four components (:792-812)
   The all-s closed form (:8-145) is the same formula with L = 0; the model has one path.
   The code selects the (d, c) components in the middle of the horizontal recursion; the model
   runs the full recursion and selects at the end (same numbers). *)
From Coq Require Import List Arith Lia Bool.
From GB Require Import Base.Field Base.FNum Base.Tables Model.Shell Model.MomentInt Model.OneElec.
Import ListNotations.

Section TwoElec.
Context {F : Type} (K : Fops F).
Local Open Scope F_scope.
Notation "0" := (f0 K) : F_scope.
Notation "1" := (f1 K) : F_scope.
Infix "+" := (fadd K) : F_scope.
Infix "*" := (fmul K) : F_scope.
Infix "-" := (fsub K) : F_scope.
Infix "/" := (fdiv K) : F_scope.
Notation "- x" := (fopp K x) : F_scope.
Notation "# n" := (ofnat K n) (at level 5) : F_scope.
Notation fsum := (FNum.fsum K).

(* vertical pass with weight w = rho/p on the (m+1) terms; pcw = w * PQ_axis *)
Section VPass2.
Variables (L : nat) (pa pcw twop w : F).
Definition vstep2 (a : nat) (cur prev : list (list F)) : list (list F) :=
  mk (S L) (fun m =>
    let c0 := nth m cur [] in
    if Nat.eqb m L then map (fun _ => 0) c0
    else
      let c1 := nth (S m) cur [] in
      let lead := zip2 (fun x y => pa * x - pcw * y) c0 c1 in
      match a with
      | O => lead
      | S _ => zip2 (fadd K) lead
                 (zip2 (fun x y => #a / twop * (x - w * y)) (nth m prev []) (nth (S m) prev []))
      end).
Definition vpass2 (v0 : list (list F)) : list (list (list F)) := iter2 vstep2 L 0%nat v0 [].
End VPass2.

Definition vrr2_cube (L : nat) (pax pay paz pqx pqy pqz twop w : F) (base : nat -> F) : cube (F:=F) :=
  let v0 := mk (S L) (fun m => [base m]) in
  let X := vpass2 L pax (w * pqx) twop w v0 in
  let v0y := mk (S L) (fun m => mk (S L) (fun ax => nth 0 (nth m (nth ax X []) []) 0)) in
  let Y := vpass2 L pay (w * pqy) twop w v0y in
  let v0z := mk (S L) (fun m => concat (mk (S L) (fun ay => nth m (nth ay Y []) []))) in
  let Z := vpass2 L paz (w * pqz) twop w v0z in
  mk (S L) (fun ax => mk (S L) (fun ay => mk (S L) (fun az =>
    nth (ay * S L + ax) (nth 0 (nth az Z []) []) 0))).

(* electron transfer along one axis: cubes over a, indexed by c along that axis *)
Definition tstep (L axis : nat) (coef twoq pq_ratio : F) (c : nat) (cur prev : cube) : cube :=
  mk (S L) (fun x => mk (S L) (fun y => mk (S L) (fun z =>
    let idx := match axis with O => x | S O => y | _ => z end in
    if Nat.eqb idx L then 0
    else
      let up := match axis with
                | O => cget K cur (S x) y z | S O => cget K cur x (S y) z | _ => cget K cur x y (S z) end in
      let dn := match axis with
                | O => cget K cur (x - 1) y z | S O => cget K cur x (y - 1) z
                | _ => cget K cur x y (z - 1) end in
      coef * cget K cur x y z + #idx / twoq * dn + #c / twoq * cget K prev x y z - pq_ratio * up))).
Definition tpass (L Lc axis : nat) (coef twoq pq_ratio : F) (t : cube) : list cube :=
  iter2 (tstep L axis coef twoq pq_ratio) Lc 0%nat t [].

(* E[cx][cy][cz] : cube over a, for one primitive quartet *)
Definition eri_prim (L Lc : nat) (A B C D : F * F * F) (alpha beta gamma delta : F)
  : list (list (list cube)) :=
  let '(Ax, Ay, Az) := A in let '(Bx, By, Bz) := B in
  let '(Cx, Cy, Cz) := C in let '(Dx, Dy, Dz) := D in
  let p := alpha + beta in let q := gamma + delta in
  let rho := p * q / (p + q) in
  let Px := (alpha * Ax + beta * Bx) / p in let Py := (alpha * Ay + beta * By) / p in
  let Pz := (alpha * Az + beta * Bz) / p in
  let Qx := (gamma * Cx + delta * Dx) / q in let Qy := (gamma * Cy + delta * Dy) / q in
  let Qz := (gamma * Cz + delta * Dz) / q in
  let ab2 := (Ax - Bx) * (Ax - Bx) + (Ay - By) * (Ay - By) + (Az - Bz) * (Az - Bz) in
  let cd2 := (Cx - Dx) * (Cx - Dx) + (Cy - Dy) * (Cy - Dy) + (Cz - Dz) * (Cz - Dz) in
  let pq2 := (Px - Qx) * (Px - Qx) + (Py - Qy) * (Py - Qy) + (Pz - Qz) * (Pz - Qz) in
  let pref := (1 + 1) * (fpi K * fpi K * fsqrt K (fpi K)) / (p * q * fsqrt K (p + q))
              * fexp K (- (alpha * beta / p * ab2)) * fexp K (- (gamma * delta / q * cd2)) in
  let T := rho * pq2 in
  let base := fun m => fapx K (pref * fboys K m T) in
  let W := vrr2_cube L (Px - Ax) (Py - Ay) (Pz - Az) (Px - Qx) (Py - Qy) (Pz - Qz)
                     ((1 + 1) * p) (rho / p) base in
  let r := p / q in let twoq := (1 + 1) * q in
  let ex := tpass L Lc 0 ((Qx - Cx) + r * (Px - Ax)) twoq r W in
  map (fun tx =>
    let ey := tpass L Lc 1 ((Qy - Cy) + r * (Py - Ay)) twoq r tx in
    map (fun ty => tpass L Lc 2 ((Qz - Cz) + r * (Pz - Az)) twoq r ty) ey) ex.

Definition coord3 (s : shell F) : F * F * F := (s_x s, s_y s, s_z s).

(* weights of one shell: (radial norm of primitive k, coefficient row k) *)
Definition wts (s : shell F) : list (F * list F) :=
  map (fun ec : F * list F => (norm_rad K (s_l s) (fst ec), snd ec)) (combine (s_exps s) (s_coeffs s)).
Definition wcoef (m : nat) (w : F * list F) : F := fst w * nth m (snd w) 0.

(* sum over the primitives of one shell: Sigma_k  f(x_k) * N_k d_{k m} *)
Definition csum {A : Type} (ws : list (F * list F)) (m : nat) (xs : list A) (f : A -> F) : F :=
  fsum (map (fun wx : (F * list F) * A => f (snd wx) * wcoef m (fst wx)) (combine ws xs)).

Definition ecube := list (list (list (@cube F))).        (* E[cx][cy][cz] : cube over a *)
Definition eget (e : ecube) (cx cy cz ax ay az : nat) : F :=
  cget K (nth cz (nth cy (nth cx e []) []) []) ax ay az.

(* contraction (:528-547): prims[ka][kb][kc][kd] *)
Definition eri_contract (w1 w2 w3 w4 : list (F * list F)) (prims : list (list (list (list ecube))))
           (m1 m2 m3 m4 : nat) (cx cy cz ax ay az : nat) : F :=
  csum w1 m1 prims (fun p1 =>
    csum w2 m2 p1 (fun p2 =>
      csum w3 m3 p2 (fun p3 =>
        csum w4 m4 p3 (fun e => fapx K (eget e cx cy cz ax ay az))))).

(* one channel (m1 m2 m3 m4): [i3][i4][bx][by][bz] cube over a *)
Definition eri_channel (La Lc lb ld : nat) (abx aby abz cdx cdy cdz : F) (comps3 comps4 : list comp)
           (getc : nat -> nat -> nat -> nat -> nat -> nat -> F) : list (list (list (list (list cube)))) :=
  (* for each a-triple: cube over c, then horizontal recursion c -> d *)
  let Y := mk (S La) (fun ax => mk (S La) (fun ay => mk (S La) (fun az =>
    let cubec : cube := mk (S Lc) (fun cx => mk (S Lc) (fun cy => mk (S Lc) (fun cz =>
                          getc cx cy cz ax ay az))) in
    hrr K Lc ld cdx cdy cdz cubec))) in      (* [ax][ay][az][dx][dy][dz] cube over c *)
  (* for each (cc, cd): cube over a, then horizontal recursion a -> b *)
  map (fun c3 : comp => map (fun c4 : comp =>
    let cx := fst (fst c3) in let cy := snd (fst c3) in let cz := snd c3 in
    let dx := fst (fst c4) in let dy := snd (fst c4) in let dz := snd c4 in
    let cubea : cube := mk (S La) (fun ax => mk (S La) (fun ay => mk (S La) (fun az =>
      cget K (nth dz (nth dy (nth dx (nth az (nth ay (nth ax Y []) []) []) []) []) []) cx cy cz))) in
    hrr K La lb abx aby abz cubea) comps4) comps3.

(* ElectronRepulsionIntegral.construct_array_contraction(s1, s2, s3, s4):
   (ab|cd) with a = s1, b = s2 (electron 1), c = s3, d = s4; result [M1][L1][M2][L2][M3][L3][M4][L4] *)
Definition eri_block (s1 s2 s3 s4 : shell F) : list (list (list (list (list (list (list (list F))))))) :=
  let la := s_l s1 in let lb := s_l s2 in let lc := s_l s3 in let ld := s_l s4 in
  let L := (la + lb + lc + ld)%nat in let Lc := (lc + ld)%nat in let La := (la + lb)%nat in
  let prims : list (list (list (list ecube))) :=
    map (fun alpha => map (fun beta => map (fun gamma => map (fun delta =>
      eri_prim L Lc (coord3 s1) (coord3 s2) (coord3 s3) (coord3 s4) alpha beta gamma delta)
      (s_exps s4)) (s_exps s3)) (s_exps s2)) (s_exps s1) in
  let w1 := wts s1 in let w2 := wts s2 in let w3 := wts s3 in let w4 := wts s4 in
  let abx := s_x s1 - s_x s2 in let aby := s_y s1 - s_y s2 in let abz := s_z s1 - s_z s2 in
  let cdx := s_x s3 - s_x s4 in let cdy := s_y s3 - s_y s4 in let cdz := s_z s3 - s_z s4 in
  let comps1 := comps_of s1 in let comps2 := comps_of s2 in
  let comps3 := comps_of s3 in let comps4 := comps_of s4 in
  let chans := mk (nseg s1) (fun m1 => mk (nseg s2) (fun m2 => mk (nseg s3) (fun m3 =>
                 mk (nseg s4) (fun m4 =>
                   eri_channel La Lc lb ld abx aby abz cdx cdy cdz comps3 comps4
                     (eri_contract w1 w2 w3 w4 prims m1 m2 m3 m4))))) in
  let f1 := map (inv_sqrt_df K) comps1 in let f2 := map (inv_sqrt_df K) comps2 in
  let f3 := map (inv_sqrt_df K) comps3 in let f4 := map (inv_sqrt_df K) comps4 in
  mk (nseg s1) (fun m1 => mk (length comps1) (fun i1 =>
    mk (nseg s2) (fun m2 => mk (length comps2) (fun i2 =>
      mk (nseg s3) (fun m3 => mk (length comps3) (fun i3 =>
        mk (nseg s4) (fun m4 => mk (length comps4) (fun i4 =>
          let c1 := nth i1 comps1 (0, 0, 0)%nat in let c2 := nth i2 comps2 (0, 0, 0)%nat in
          let ch := nth m4 (nth m3 (nth m2 (nth m1 chans []) []) []) [] in
          let h := nth i4 (nth i3 ch []) [] in
          cget K (nth (snd c2) (nth (snd (fst c2)) (nth (fst (fst c2)) h []) []) [])
                 (fst (fst c1)) (snd (fst c1)) (snd c1)
          * nth i1 f1 0 * nth i2 f2 0 * nth i3 f3 0 * nth i4 f4 0)))))))).

(* ---- electron_repulsion.py after the orientation repair (construct_array_contraction) ----
   order = min(_ORIENTATIONS, key = _noise_amplification)    a FLOATING-POINT estimate: modelled as an oracle
   cont_one..four = (conts[i] for i in order)                 the recursions run for the permuted quartet
   integrals = transpose(.., (4,0,5,1,6,2,7,3))               [M1'][L1'][M2'][L2'][M3'][L3'][M4'][L4'] of the permuted quartet
   positions = [order.index(i) for i in range(4)]
   return transpose(integrals, [axis for k in positions for axis in (2k, 2k+1)])
   i.e. result[m1,i1,..,m4,i4] = block(conts[order[0]],..,conts[order[3]]) [ (m,i)_{order[0]}, .., (m,i)_{order[3]} ].
   The eight constructors are _ORIENTATIONS in the order of the source (command 22 of the runner: 0..7). *)
Inductive orient := O_abcd | O_bacd | O_abdc | O_badc | O_cdab | O_dcab | O_cdba | O_dcba.

(* conts[order[k]], k = 0..3, for any four things *)
Definition opick1 {A : Type} (o : orient) (x1 x2 x3 x4 : A) : A :=
  match o with O_abcd | O_abdc => x1 | O_bacd | O_badc => x2 | O_cdab | O_cdba => x3 | O_dcab | O_dcba => x4 end.
Definition opick2 {A : Type} (o : orient) (x1 x2 x3 x4 : A) : A :=
  match o with O_abcd | O_abdc => x2 | O_bacd | O_badc => x1 | O_cdab | O_cdba => x4 | O_dcab | O_dcba => x3 end.
Definition opick3 {A : Type} (o : orient) (x1 x2 x3 x4 : A) : A :=
  match o with O_abcd | O_bacd => x3 | O_abdc | O_badc => x4 | O_cdab | O_dcab => x1 | O_cdba | O_dcba => x2 end.
Definition opick4 {A : Type} (o : orient) (x1 x2 x3 x4 : A) : A :=
  match o with O_abcd | O_bacd => x4 | O_abdc | O_badc => x3 | O_cdab | O_dcab => x2 | O_cdba | O_dcba => x1 end.

Definition block8 := list (list (list (list (list (list (list (list F))))))).
Definition get8 (b : block8) (m1 i1 m2 i2 m3 i3 m4 i4 : nat) : F :=
  nth i4 (nth m4 (nth i3 (nth m3 (nth i2 (nth m2 (nth i1 (nth m1 b []) []) []) []) []) []) []) 0.

(* eri_block of the permuted shells with the 8 axes permuted back to [M1][L1][M2][L2][M3][L3][M4][L4] *)
Definition eri_block_oriented (o : orient) (s1 s2 s3 s4 : shell F) : block8 :=
  let B := eri_block (opick1 o s1 s2 s3 s4) (opick2 o s1 s2 s3 s4) (opick3 o s1 s2 s3 s4) (opick4 o s1 s2 s3 s4) in
  mk (nseg s1) (fun m1 => mk (length (comps_of s1)) (fun i1 =>
    mk (nseg s2) (fun m2 => mk (length (comps_of s2)) (fun i2 =>
      mk (nseg s3) (fun m3 => mk (length (comps_of s3)) (fun i3 =>
        mk (nseg s4) (fun m4 => mk (length (comps_of s4)) (fun i4 =>
          get8 B (opick1 o m1 m2 m3 m4) (opick1 o i1 i2 i3 i4) (opick2 o m1 m2 m3 m4) (opick2 o i1 i2 i3 i4)
                 (opick3 o m1 m2 m3 m4) (opick3 o i1 i2 i3 i4) (opick4 o m1 m2 m3 m4) (opick4 o i1 i2 i3 i4))))))))).

(* the implementation: the orientation is whatever the conditioning estimate picks *)
Definition eri_block_impl (choose : shell F -> shell F -> shell F -> shell F -> orient)
           (s1 s2 s3 s4 : shell F) : block8 :=
  eri_block_oriented (choose s1 s2 s3 s4) s1 s2 s3 s4.

End TwoElec.
