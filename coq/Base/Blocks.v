(* Base/Blocks.v — linear maps on lists of module elements, block-diagonal
   matrices and the block-sum lemma used by the assembly theorems (C09).

   [X] is any "module" over the scalars [F]: a zero, an addition, a scaling.
   The laws are hypotheses of the sections below, relativised to a predicate
   [P] ("well-shaped element") so that the same lemmas serve scalars
   (P = True) and rows / slabs of a fixed shape (P = "has that shape"), where
   e.g. [zero + x = x] only holds for rows of the right width. *)
From Coq Require Import List Arith Lia Bool Permutation.
From GB Require Import Base.Field Base.Tables.
Import ListNotations.

Fixpoint map2 {A B C} (f : A -> B -> C) (a : list A) (b : list B) : list C :=
  match a, b with
  | x :: a', y :: b' => f x y :: map2 f a' b'
  | _, _ => []
  end.

Lemma map2_length {A B C} (f : A -> B -> C) a b :
  length a = length b -> length (map2 f a b) = length a.
Proof. revert b; induction a as [|x a IH]; intros [|y b] H; cbn in *; try lia. now rewrite IH by lia. Qed.

Lemma map2_app {A B C} (f : A -> B -> C) a1 a2 b1 b2 :
  length a1 = length b1 -> map2 f (a1 ++ a2) (b1 ++ b2) = map2 f a1 b1 ++ map2 f a2 b2.
Proof. revert b1; induction a1 as [|x a IH]; intros [|y b] H; cbn in *; try lia; [reflexivity|].
  now rewrite IH by lia. Qed.

Lemma nth_map2 {A B C} (f : A -> B -> C) a b da db dc i :
  i < length a -> i < length b -> nth i (map2 f a b) dc = f (nth i a da) (nth i b db).
Proof. revert b i; induction a as [|x a IH]; intros [|y b] [|i] Ha Hb; cbn in *; try lia; [reflexivity|].
  apply IH; lia. Qed.

Lemma map2_map_r {A B B' C} (f : A -> B -> C) (g : B' -> B) a b :
  map2 f a (map g b) = map2 (fun x y => f x (g y)) a b.
Proof. revert b; induction a as [|x a IH]; intros [|y b]; cbn; [reflexivity..|]. now rewrite IH. Qed.

Section Lin.
Context {F : Type} (K : Fops F).
Context {X : Type} (xzero : X) (xadd : X -> X -> X) (xscale : F -> X -> X).

(* sum_k t_k * v_k over the common length (what tensordot does along one axis) *)
Fixpoint dot (t : list F) (v : list X) : X :=
  match t, v with
  | a :: t', x :: v' => xadd (xscale a x) (dot t' v')
  | _, _ => xzero
  end.

(* a matrix (list of rows over F) applied to a vector of module elements *)
Definition lin (T : list (list F)) (v : list X) : list X := map (fun t => dot t v) T.

Definition zeros (n : nat) : list F := repeat (f0 K) n.
Definition ncols (T : list (list F)) : nat := length (hd [] T).

(* direct sum of matrices *)
Fixpoint bdiag (Us : list (list (list F))) : list (list F) :=
  match Us with
  | [] => []
  | U :: r => let B := bdiag r in
      map (fun row => row ++ zeros (ncols B)) U ++ map (fun row => zeros (ncols U) ++ row) B
  end.

Fixpoint ident (n : nat) : list (list F) :=
  match n with
  | O => []
  | S n' => (f1 K :: zeros n') :: map (cons (f0 K)) (ident n')
  end.

(* the module of rows (lists of elements): pointwise operations *)
Definition radd (x y : list X) : list X := map2 xadd x y.
Definition rscale (t : F) (x : list X) : list X := map (xscale t) x.
Definition rzero (w : nat) : list X := repeat xzero w.

Section Laws.
Context (P : X -> Prop).
Hypothesis Pz : P xzero.
Hypothesis Pa : forall x y, P x -> P y -> P (xadd x y).
Hypothesis Ps : forall t x, P x -> P (xscale t x).
Hypothesis A0l : forall x, P x -> xadd xzero x = x.
Hypothesis S0 : forall x, P x -> xscale (f0 K) x = xzero.

Lemma dot_P t v : Forall P v -> P (dot t v).
Proof. revert v; induction t as [|a t IH]; intros [|x v] H; cbn; auto.
  inversion H; subst. auto. Qed.

Lemma lin_P T v : Forall P v -> Forall P (lin T v).
Proof. intros H. unfold lin. apply Forall_forall. intros y Hy. apply in_map_iff in Hy.
  destruct Hy as [t [<- _]]. now apply dot_P. Qed.

Lemma dot_zeros n v : Forall P v -> dot (zeros n) v = xzero.
Proof. revert v; induction n as [|n IH]; intros [|x v] H; cbn; auto.
  inversion H; subst. rewrite IH, S0 by assumption. now apply A0l. Qed.

Lemma dot_app_zeros_r row k v1 v2 :
  length row = length v1 -> Forall P v2 -> dot (row ++ zeros k) (v1 ++ v2) = dot row v1.
Proof. revert v1; induction row as [|a row IH]; intros [|x v1] H H2; cbn in *; try lia.
  - now apply dot_zeros.
  - now rewrite IH by (assumption || lia). Qed.

Lemma dot_app_zeros_l c row v1 v2 :
  length v1 = c -> Forall P v1 -> Forall P v2 -> dot (zeros c ++ row) (v1 ++ v2) = dot row v2.
Proof. revert v1; induction c as [|c IH]; intros [|x v1] H H1 H2; cbn in *; try lia; [reflexivity|].
  inversion H1; subst. rewrite IH by (assumption || lia). rewrite S0 by assumption.
  apply A0l. now apply dot_P. Qed.

(* block-sum lemma, one step *)
Lemma lin_bdiag_cons U r v1 v2 :
  length v1 = ncols U -> Forall (fun row => length row = ncols U) U ->
  Forall P v1 -> Forall P v2 ->
  lin (bdiag (U :: r)) (v1 ++ v2) = lin U v1 ++ lin (bdiag r) v2.
Proof.
  intros Hl HU H1 H2. cbn [bdiag]. unfold lin. rewrite map_app, !map_map. f_equal.
  - apply map_ext_in. intros row Hin. rewrite Forall_forall in HU.
    apply dot_app_zeros_r; [|assumption]. rewrite (HU _ Hin). lia.
  - apply map_ext. intros row. now apply dot_app_zeros_l.
Qed.

Definition fits (U : list (list F)) (v : list X) : Prop :=
  length v = ncols U /\ Forall (fun row => length row = ncols U) U /\ Forall P v.

(* block-sum lemma: (+)_s U_s applied to the concatenation = concatenation of U_s v_s *)
Lemma lin_bdiag Us vs :
  Forall2 fits Us vs -> lin (bdiag Us) (concat vs) = concat (map2 lin Us vs).
Proof.
  induction 1 as [|U v Us vs [H1 [H2 H3]] HF IH]; [reflexivity|].
  cbn [concat map2]. rewrite lin_bdiag_cons; auto; [now rewrite IH|].
  clear IH. induction HF as [|U' v' ? ? [_ [_ H4]] _ IH']; cbn; [constructor|].
  apply Forall_app; auto.
Qed.

(* shapes of the block-diagonal / identity matrices *)
Definition rect (U : list (list F)) : Prop := Forall (fun row => length row = ncols U) U.

Lemma zeros_length n : length (zeros n) = n.
Proof. apply repeat_length. Qed.

Lemma bdiag_repeat_shape T M : T <> [] -> rect T ->
  ncols (bdiag (repeat T M)) = M * ncols T /\
  Forall (fun row => length row = M * ncols T) (bdiag (repeat T M)).
Proof.
  intros Hne HT. induction M as [|M [IH1 IH2]]; [split; [reflexivity|constructor]|].
  cbn [repeat bdiag]. split.
  - destruct T as [|r0 T']; [congruence|]. unfold ncols at 1. cbn [map app hd].
    rewrite app_length, zeros_length, IH1. reflexivity.
  - apply Forall_app. split; apply Forall_forall; intros row Hin; apply in_map_iff in Hin;
      destruct Hin as [r [<- Hr]]; rewrite app_length, zeros_length.
    + unfold rect in HT. rewrite Forall_forall in HT. rewrite (HT _ Hr), IH1. lia.
    + rewrite Forall_forall in IH2. rewrite (IH2 _ Hr). lia.
Qed.

Lemma ident_shape n : ncols (ident n) = n /\ Forall (fun row => length row = n) (ident n).
Proof.
  induction n as [|n [IH1 IH2]]; [split; [reflexivity|constructor]|].
  cbn [ident]. split; [unfold ncols; cbn; now rewrite zeros_length|].
  constructor; [cbn; now rewrite zeros_length|].
  apply Forall_forall. intros row Hin. apply in_map_iff in Hin. destruct Hin as [r [<- Hr]].
  rewrite Forall_forall in IH2. cbn. now rewrite (IH2 _ Hr).
Qed.

Lemma concat_P (b : list (list X)) : Forall (Forall P) b -> Forall P (concat b).
Proof. induction 1; cbn; [constructor|]. now apply Forall_app. Qed.

Hypothesis A0r : forall x, P x -> xadd x xzero = x.
Hypothesis S1 : forall x, P x -> xscale (f1 K) x = x.

Lemma dot_cons0 t x v : P x -> Forall P v -> dot (f0 K :: t) (x :: v) = dot t v.
Proof. intros Hx Hv. cbn. rewrite S0 by assumption. apply A0l. now apply dot_P. Qed.

Lemma lin_ident v : Forall P v -> lin (ident (length v)) v = v.
Proof.
  induction 1 as [|x v Hx Hv IH]; [reflexivity|].
  cbn [length ident]. unfold lin in *. cbn [map]. f_equal.
  - cbn [dot]. rewrite dot_zeros, S1 by assumption. now apply A0r.
  - rewrite map_map. rewrite <- IH at 2. apply map_ext. intros t. now apply dot_cons0.
Qed.
End Laws.
End Lin.

(* The module of rows of width [w] over a module [X] with laws relativised to [P]:
   its laws, relativised to "has width w and entries in P". *)
Section Rows.
Context {F : Type} (K : Fops F).
Context {X : Type} (xzero : X) (xadd : X -> X -> X) (xscale : F -> X -> X).
Context (P : X -> Prop).
Hypothesis Pz : P xzero.
Hypothesis Pa : forall x y, P x -> P y -> P (xadd x y).
Hypothesis Ps : forall t x, P x -> P (xscale t x).
Hypothesis A0l : forall x, P x -> xadd xzero x = x.
Hypothesis A0r : forall x, P x -> xadd x xzero = x.
Hypothesis S0 : forall x, P x -> xscale (f0 K) x = xzero.
Hypothesis S1 : forall x, P x -> xscale (f1 K) x = x.

Definition Prow (w : nat) (x : list X) : Prop := length x = w /\ Forall P x.

Lemma Prow_zero w : Prow w (rzero xzero w).
Proof. split; [apply repeat_length|]. apply Forall_forall. intros x Hx. apply repeat_spec in Hx. now subst. Qed.

Lemma Prow_add w x y : Prow w x -> Prow w y -> Prow w (radd xadd x y).
Proof.
  intros [Lx Hx] [Ly Hy]. split; [unfold radd; rewrite map2_length; lia|].
  unfold radd. clear Lx Ly. revert y Hy. induction Hx as [|a x Ha Hx IH]; intros [|b y] Hy; cbn; try constructor.
  - inversion Hy; subst. auto.
  - inversion Hy; subst. auto.
Qed.

Lemma Prow_scale w t x : Prow w x -> Prow w (rscale xscale t x).
Proof. intros [Lx Hx]. split; [unfold rscale; now rewrite map_length|].
  clear Lx. unfold rscale. induction Hx; cbn; constructor; auto. Qed.

Lemma row_A0l w x : Prow w x -> radd xadd (rzero xzero w) x = x.
Proof. intros [Lx Hx]. subst w. unfold radd, rzero. induction Hx as [|a x Ha Hx IH]; cbn; [reflexivity|].
  now rewrite IH, A0l. Qed.

Lemma row_A0r w x : Prow w x -> radd xadd x (rzero xzero w) = x.
Proof. intros [Lx Hx]. subst w. unfold radd, rzero. induction Hx as [|a x Ha Hx IH]; cbn; [reflexivity|].
  now rewrite IH, A0r. Qed.

Lemma row_S0 w x : Prow w x -> rscale xscale (f0 K) x = rzero xzero w.
Proof. intros [Lx Hx]. subst w. unfold rscale, rzero. induction Hx as [|a x Ha Hx IH]; cbn; [reflexivity|].
  now rewrite IH, S0. Qed.

Lemma row_S1 w x : Prow w x -> rscale xscale (f1 K) x = x.
Proof. intros [Lx Hx]. clear Lx. unfold rscale. induction Hx as [|a x Ha Hx IH]; cbn; [reflexivity|].
  now rewrite IH, S1. Qed.
End Rows.

(* nth through concat of equally long pieces is not needed: the theorems are
   stated structurally (concat / map) and index-wise only at the outermost level. *)
