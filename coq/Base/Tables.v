(* Base/Tables.v — list tables used by the array models: [mk] (a row built
   from an index function), [iter2] (a two-term recurrence producing a list
   of rows, the shape of every NumPy "for j in range(1, n): t[j+1] = f(t[j],
   t[j-1])" loop in the code) and finite sums. *)
From Coq Require Import List Arith Lia.
Import ListNotations.

Definition mk {A} (n : nat) (f : nat -> A) : list A := map f (seq 0 n).

Lemma mk_length {A} n (f : nat -> A) : length (mk n f) = n.
Proof. unfold mk. now rewrite map_length, seq_length. Qed.

Lemma nth_mk {A} n (f : nat -> A) d i : i < n -> nth i (mk n f) d = f i.
Proof.
  intros Hi. unfold mk.
  rewrite (nth_indep _ d (f 0)) by (now rewrite map_length, seq_length).
  rewrite map_nth. now rewrite seq_nth.
Qed.

Lemma mk_ext {A} n (f g : nat -> A) : (forall i, i < n -> f i = g i) -> mk n f = mk n g.
Proof. intros H. unfold mk. apply map_ext_in. intros i Hi. apply in_seq in Hi. apply H. lia. Qed.

(* rows 0..n of a two-term recurrence: row (j+1) = step j (row j) (row (j-1)) *)
Fixpoint iter2 {A} (step : nat -> A -> A -> A) (n j : nat) (cur prev : A) : list A :=
  match n with
  | O => [cur]
  | S n' => cur :: iter2 step n' (S j) (step j cur prev) cur
  end.

Lemma iter2_length {A} (step : nat -> A -> A -> A) n j cur prev :
  length (iter2 step n j cur prev) = S n.
Proof. revert j cur prev; induction n as [|n IH]; intros; cbn [iter2 length]; [reflexivity|].
  now rewrite IH. Qed.

(* invariant transfer: P j (row j) for all rows *)
Lemma iter2_spec {A} (step : nat -> A -> A -> A) (P : nat -> A -> Prop) d :
  (forall j x y, P j x -> (0 < j -> P (j - 1) y) -> P (S j) (step j x y)) ->
  forall n j cur prev, P j cur -> (0 < j -> P (j - 1) prev) ->
  forall m, m <= n -> P (j + m) (nth m (iter2 step n j cur prev) d).
Proof.
  intros Hstep. induction n as [|n IH]; intros j cur prev Hc Hp m Hm.
  - assert (m = 0) by lia. subst m. cbn [iter2 nth]. now rewrite Nat.add_0_r.
  - destruct m as [|m]; cbn [iter2 nth].
    + now rewrite Nat.add_0_r.
    + replace (j + S m) with (S j + m) by lia. apply IH; [| |lia].
      * apply Hstep; assumption.
      * intros _. now replace (S j - 1) with j by lia.
Qed.

(* sum of f over 0..n-1 in a generic additive structure *)
Section Sum.
Context {A : Type} (zero : A) (add : A -> A -> A).
Fixpoint sumn (n : nat) (f : nat -> A) : A :=
  match n with O => zero | S n' => add (sumn n' f) (f n') end.
Definition suml (l : list A) : A := fold_right add zero l.
Lemma sumn_ext n f g : (forall i, i < n -> f i = g i) -> sumn n f = sumn n g.
Proof. induction n as [|n IH]; intros H; cbn [sumn]; [reflexivity|].
  rewrite IH by (intros; apply H; lia). now rewrite H by lia. Qed.
End Sum.
