(* Base/FNum.v — integer-valued helper functions computed in the field
   (factorials and double factorials overflow any unary nat). *)
From Coq Require Import List Arith Lia.
From GB Require Import Base.Field.
Import ListNotations.

Section FNum.
Context {F : Type} (K : Fops F).

Fixpoint fpow (x : F) (n : nat) : F :=
  match n with O => f1 K | S n' => fmul K x (fpow x n') end.

(* n! *)
Fixpoint ffact (n : nat) : F :=
  match n with O => f1 K | S n' => fmul K (ofnat K n) (ffact n') end.

(* (2n-1)!!, with (-1)!! = 1: what utils.factorial2 returns on 2n-1 *)
Fixpoint fdf_odd (n : nat) : F :=
  match n with O => f1 K | S n' => fmul K (ofnat K (2 * n' + 1)) (fdf_odd n') end.

(* binomial coefficient, 0 when k > n (scipy.special.comb) *)
Definition fbinom (n k : nat) : F :=
  if Nat.leb k n then fdiv K (ffact n) (fmul K (ffact k) (ffact (n - k))) else f0 K.

Definition fsum (l : list F) : F := fold_right (fadd K) (f0 K) l.

Definition fneg1pow (n : nat) : F := if Nat.even n then f1 K else fopp K (f1 K).
End FNum.
