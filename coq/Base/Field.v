(* Base/Field.v — the number interface shared by every model.

   A model is a Gallina function over an arbitrary type [F] carrying the
   operations of [Fops]; theorems assume [field_theory] for them (a section
   hypothesis, never an axiom).  Execution uses the instance [QcK] at the
   canonical rationals [Qc]; its arithmetic normalises with [Z.gcd] and
   [Z.div] (proved equal to the standard [Qred]) so that the extracted code
   only uses big-integer operations: those mapped by ExtrOcamlZBigInt plus
   the single directive  Extract Constant Z.gcd => Big_int_Z.gcd_big_int
   of Extract/Extract.v (the library file maps no gcd, and a gcd written in
   Gallina is quadratic: 0.5 ms per operation on 1000-bit numbers).

   Transcendental functions (pi, sqrt, exp, ln, Boys) are fields of [Fops]:
   in theorems they are arbitrary (hypotheses state what is needed of them),
   in execution they are closures supplied by the driver (exact dyadic
   approximations computed by mpmath), see DESIGN.md 2.2. *)
From Coq Require Import ZArith QArith Qcanon Field Lia List.
Import ListNotations.

Declare Scope F_scope.
Delimit Scope F_scope with F.

Record Fops (F : Type) := mkFops {
  f0 : F; f1 : F;
  fadd : F -> F -> F; fmul : F -> F -> F; fsub : F -> F -> F; fopp : F -> F;
  fdiv : F -> F -> F; finv : F -> F;
  fleb : F -> F -> bool;            (* x <= y, used only by threshold / screening models *)
  feqb : F -> F -> bool;
  fpi : F;
  fsqrt : F -> F; fexp : F -> F; fln : F -> F;
  fboys : nat -> F -> F;
  fapx : F -> F                     (* identity in theorems (hypothesis); in fast execution a rounding
                                       to a dyadic grid applied to individual terms of long sums *)
}.
Arguments f0 {F}. Arguments f1 {F}. Arguments fadd {F}. Arguments fmul {F}.
Arguments fsub {F}. Arguments fopp {F}. Arguments fdiv {F}. Arguments finv {F}.
Arguments fleb {F}. Arguments feqb {F}. Arguments fpi {F}. Arguments fsqrt {F}.
Arguments fexp {F}. Arguments fln {F}. Arguments fboys {F}. Arguments fapx {F}.

Notation is_field K :=
  (field_theory (f0 K) (f1 K) (fadd K) (fmul K) (fsub K) (fopp K) (fdiv K) (finv K) eq).
Notation is_ring K :=
  (ring_theory (f0 K) (f1 K) (fadd K) (fmul K) (fsub K) (fopp K) eq).

(* [ofnat n] = 1 + (1 + ... 0): the image of a natural number. *)
Fixpoint ofnat {F} (K : Fops F) (n : nat) : F :=
  match n with O => f0 K | S k => fadd K (f1 K) (ofnat K k) end.

(* ------------------------------------------------------------------ *)
(* Fast canonical rationals                                            *)
(* ------------------------------------------------------------------ *)

Definition Qred_fast (q : Q) : Q :=
  let n := Qnum q in let d := Zpos (Qden q) in
  let g := Z.gcd n d in
  Qmake (Z.div n g) (Z.to_pos (Z.div d g)).

Lemma Qred_fast_eq q : Qred_fast q = Qred q.
Proof.
  destruct q as [n d]. unfold Qred_fast, Qred. cbn [Qnum Qden].
  pose proof (Z.ggcd_gcd n (Zpos d)) as Hg.
  pose proof (Z.ggcd_correct_divisors n (Zpos d)) as Hd.
  destruct (Z.ggcd n (Zpos d)) as [g [aa bb]]. cbn [fst snd] in *.
  destruct Hd as [Hn Hdd]. subst g.
  assert (Hpos : (0 < Z.gcd n (Zpos d))%Z).
  { pose proof (Z.gcd_nonneg n (Zpos d)).
    assert (Z.gcd n (Zpos d) <> 0%Z) by (intro H0; apply Z.gcd_eq_0_r in H0; discriminate).
    lia. }
  set (g := Z.gcd n (Zpos d)) in *.
  assert (E1 : (n / g = aa)%Z).
  { rewrite Hn at 1. rewrite Z.mul_comm. apply Z.div_mul. lia. }
  assert (E2 : (Zpos d / g = bb)%Z).
  { rewrite Hdd at 1. rewrite Z.mul_comm. apply Z.div_mul. lia. }
  now rewrite E1, E2.
Qed.

Lemma Qred_fast_canon q : Qred (Qred_fast q) = Qred_fast q.
Proof. rewrite Qred_fast_eq. apply Qred_involutive. Qed.

Definition Q2Qcf (q : Q) : Qc := Qcmake (Qred_fast q) (Qred_fast_canon q).

Lemma Q2Qcf_eq q : Q2Qcf q = Q2Qc q.
Proof. apply Qc_is_canon. unfold Q2Qcf, Q2Qc. cbn [this]. now rewrite Qred_fast_eq. Qed.

Definition qc_add (x y : Qc) : Qc := Q2Qcf (Qplus x y).
Definition qc_mul (x y : Qc) : Qc := Q2Qcf (Qmult x y).
Definition qc_opp (x : Qc) : Qc := Q2Qcf (Qopp x).
Definition qc_sub (x y : Qc) : Qc := Q2Qcf (Qminus x y).
Definition qc_inv (x : Qc) : Qc := Q2Qcf (Qinv x).
Definition qc_div (x y : Qc) : Qc := Q2Qcf (Qdiv x y).
Definition qc_leb (x y : Qc) : bool := Qle_bool x y.
Definition qc_eqb (x y : Qc) : bool := Qeq_bool x y.

Lemma qc_add_eq x y : qc_add x y = Qcplus x y.
Proof. unfold qc_add. now rewrite Q2Qcf_eq. Qed.
Lemma qc_mul_eq x y : qc_mul x y = Qcmult x y.
Proof. unfold qc_mul. now rewrite Q2Qcf_eq. Qed.
Lemma qc_opp_eq x : qc_opp x = Qcopp x.
Proof. unfold qc_opp. now rewrite Q2Qcf_eq. Qed.
Lemma qc_sub_eq x y : qc_sub x y = Qcminus x y.
Proof.
  unfold qc_sub, Qcminus, Qcplus, Qcopp. rewrite Q2Qcf_eq.
  apply Qc_is_canon. unfold Q2Qc; cbn [this]. rewrite !Qred_correct. reflexivity.
Qed.
Lemma qc_inv_eq x : qc_inv x = Qcinv x.
Proof. unfold qc_inv. now rewrite Q2Qcf_eq. Qed.
Lemma qc_div_eq x y : qc_div x y = Qcdiv x y.
Proof.
  unfold qc_div, Qcdiv, Qcmult, Qcinv. rewrite Q2Qcf_eq.
  apply Qc_is_canon. unfold Q2Qc; cbn [this]. rewrite !Qred_correct. reflexivity.
Qed.

(* rounding (towards -infinity) to a multiple of 2^-s: all in mapped big-integer operations *)
Definition qc_round (s : Z) (x : Qc) : Qc :=
  let sc := Z.shiftl 1 s in
  Q2Qcf (Qmake (Z.div (Z.mul (Qnum x) sc) (Zpos (Qden x))) (Z.to_pos sc)).

(* The executable instance: exact rationals, transcendental closures given.
   exact = true: fapx is the identity (the instance the theorems' hypothesis on fapx holds for);
   exact = false: individual terms of long sums are rounded to multiples of 2^-400. *)
Definition QcK (exact : bool) (opi : Qc) (osqrt oexp oln : Qc -> Qc) (oboys : nat -> Qc -> Qc)
  : Fops Qc :=
  mkFops Qc (Q2Qc 0) (Q2Qc 1) qc_add qc_mul qc_sub qc_opp qc_div qc_inv qc_leb qc_eqb
         opi osqrt oexp oln oboys (if exact then (fun x => x) else qc_round 400).

(* Without functional extensionality: rebuild the record field by field. *)
Lemma QcK_field ex opi osqrt oexp oln oboys : is_field (QcK ex opi osqrt oexp oln oboys).
Proof.
  cbn [QcK f0 f1 fadd fmul fsub fopp fdiv finv].
  pose proof Qcft as [[A0 A1 A2 A3 A4 A5 A6 A7 A8] B C D].
  constructor; [constructor|..]; intros;
    rewrite ?qc_add_eq, ?qc_mul_eq, ?qc_sub_eq, ?qc_opp_eq, ?qc_div_eq, ?qc_inv_eq; auto.
Qed.

(* conversion helpers used by the runner *)
Definition qc_of (n : Z) (d : positive) : Qc := Q2Qcf (Qmake n d).
Definition qc_num (x : Qc) : Z := Qnum x.
Definition qc_den (x : Qc) : positive := Qden x.

Lemma QcK_exact_apx opi osqrt oexp oln oboys x : fapx (QcK true opi osqrt oexp oln oboys) x = x.
Proof. reflexivity. Qed.
