(* driver.ml — glue around the extracted model (model.ml).
   Reads one command per line on stdin (S-expression of integers and n/d
   rationals), runs [Model.run] with oracle closures, prints "RES <sexp>".
   A transcendental value not yet known is requested from the harness with a
   line "ASK <fn> [m] <num>/<den>" and read back as "<num>/<den>" (an exact
   dyadic rational computed with mpmath); each closure caches, so it is a
   function of its argument. *)
open Model
(* the extracted model may define Coq's [string] type (label syntax of C10): keep OCaml's here *)
type string = Stdlib.String.t

let z_of_string s = Big_int_Z.big_int_of_string s
let string_of_z z = Big_int_Z.string_of_big_int z

(* ---- S-expression parser / printer ---- *)
let parse (s : string) : sx =
  let n = String.length s in
  let pos = ref 0 in
  let rec skip () = if !pos < n && (s.[!pos] = ' ' || s.[!pos] = '\n' || s.[!pos] = '\t') then (incr pos; skip ()) in
  let rec item () : sx =
    skip ();
    if !pos >= n then failwith "eof"
    else if s.[!pos] = '(' then begin
      incr pos;
      let rec items acc =
        skip ();
        if !pos >= n then failwith "unclosed"
        else if s.[!pos] = ')' then (incr pos; List.rev acc)
        else let x = item () in items (x :: acc) in
      SL (items [])
    end else begin
      let st = !pos in
      while !pos < n && s.[!pos] <> ' ' && s.[!pos] <> ')' && s.[!pos] <> '(' do incr pos done;
      let tok = String.sub s st (!pos - st) in
      match String.index_opt tok '/' with
      | None -> SZ (z_of_string tok)
      | Some i ->
        SQ (z_of_string (String.sub tok 0 i), z_of_string (String.sub tok (i+1) (String.length tok - i - 1)))
    end in
  item ()

let rec print (b : Buffer.t) (x : sx) : unit =
  match x with
  | SZ z -> Buffer.add_string b (string_of_z z)
  | SQ (nn, d) -> Buffer.add_string b (string_of_z nn); Buffer.add_char b '/'; Buffer.add_string b (string_of_z d)
  | SL l -> Buffer.add_char b '(';
    List.iteri (fun i y -> if i > 0 then Buffer.add_char b ' '; print b y) l;
    Buffer.add_char b ')'

(* ---- oracle closures ---- *)
let qkey (x : qc) = string_of_z x.qnum ^ "/" ^ string_of_z x.qden
let parse_q (s : string) : qc =
  let s = String.trim s in
  match String.index_opt s '/' with
  | None -> qc_of (z_of_string s) Big_int_Z.unit_big_int
  | Some i -> qc_of (z_of_string (String.sub s 0 i)) (z_of_string (String.sub s (i+1) (String.length s - i - 1)))

let table : (string, qc) Hashtbl.t = Hashtbl.create 1024
let ask (fn : string) (arg : string) : qc =
  let key = fn ^ " " ^ arg in
  match Hashtbl.find_opt table key with
  | Some v -> v
  | None ->
    print_string ("ASK " ^ key ^ "\n"); flush stdout;
    let v = parse_q (input_line stdin) in
    Hashtbl.add table key v; v

let rec int_of_nat (n : nat) : int = match n with O -> 0 | S k -> 1 + int_of_nat k

let exact_mode = Array.length Sys.argv > 1 && Sys.argv.(1) = "exact"

let kk : qc fops =
  qcK exact_mode (ask "pi" "0/1")
      (fun x -> ask "sqrt" (qkey x))
      (fun x -> ask "exp" (qkey x))
      (fun x -> ask "ln" (qkey x))
      (fun m x -> ask ("boys " ^ string_of_int (int_of_nat m)) (qkey x))

let () =
  try
    while true do
      let line = input_line stdin in
      if String.length line > 0 then begin
        let res = (try run kk (parse line) with Failure m -> SL [SZ (Big_int_Z.big_int_of_int (-2))]) in
        let b = Buffer.create 65536 in
        Buffer.add_string b "RES "; print b res; Buffer.add_char b '\n';
        print_string (Buffer.contents b); flush stdout
      end
    done
  with End_of_file -> ()
