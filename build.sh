#!/bin/bash
# Build the Coq development (full .vo build), extract the runner, compile the OCaml driver.
set -e
cd "$(dirname "$0")/coq"
coq_makefile -f _CoqProject -o Makefile.coq > /dev/null
# -k: a file that no longer compiles (e.g. a proof about a regenerated Gen/*.v after /repo changed) must not
# keep the files of the other properties from being built; the exit status still reports the failure.
timeout 3000 make -k -f Makefile.coq -j16 2>&1 | grep -v "^COQDEP\|^COQC\|conda" || true
# make's exit status (pipe hides it): re-run quietly
rc=0
timeout 3000 make -k -f Makefile.coq -j16 > /dev/null 2>&1 || rc=$?
if [ -f model.ml ]; then mv -f model.ml model.mli ../ocaml/; fi
cd ../ocaml
if [ ! -x driver ] || [ model.ml -nt driver ] || [ driver.ml -nt driver ]; then
  ocamlfind ocamlopt -package zarith -linkpkg -w -a model.mli model.ml driver.ml -o driver
fi
exit $rc
